package refenc

import (
	"encoding/binary"
	"math"
	"sort"
)

// JKind enumerates the logical kinds of a JSON document node.
type JKind int

// Node kinds.
const (
	JObject JKind = iota
	JArray
	JNull
	JTrue
	JFalse
	JInt    // signed integer (Json_int): int16 / int32 / int64 by magnitude
	JUint   // unsigned integer (Json_uint): uint16 / uint32 / uint64 by magnitude
	JDouble // IEEE double, bits in U
	JString
	JDate     // opaque MYSQL_TYPE_DATE
	JTime     // opaque MYSQL_TYPE_TIME
	JDateTime // opaque MYSQL_TYPE_DATETIME
	JDecimal  // opaque MYSQL_TYPE_NEWDECIMAL
)

// JNode is a logical JSON document.  It is plain data (JSON-serialisable).
type JNode struct {
	K    JKind
	Keys []string `json:",omitempty"` // JObject: keys, parallel to Kids
	Kids []*JNode `json:",omitempty"`
	I    int64    `json:",omitempty"`
	U    uint64   `json:",omitempty"`
	S    Blob     `json:",omitempty"` // JString
	// temporal fields
	Neg                      bool `json:",omitempty"`
	Y, Mo, D, H, Mi, Sec, Us int  `json:",omitempty"`
	// decimal
	P, Sc  int    `json:",omitempty"`
	Digits string `json:",omitempty"`
	// Large forces the large storage format for this container (only honoured
	// at the root or under a large parent, as the format requires).
	Large bool `json:",omitempty"`
	// Empty (root JNull only): the column value has length zero, which the server reads as the
	// JSON null literal (Field_json::val_json); such values come from non-strict / IGNORE inserts
	Empty bool `json:",omitempty"`
}

// JSON binary type bytes.
const (
	jbSmallObject = 0
	jbLargeObject = 1
	jbSmallArray  = 2
	jbLargeArray  = 3
	jbLiteral     = 4
	jbInt16       = 5
	jbUint16      = 6
	jbInt32       = 7
	jbUint32      = 8
	jbInt64       = 9
	jbUint64      = 10
	jbDouble      = 11
	jbString      = 12
	jbOpaque      = 15
)

// SortKeys orders object keys the way Json_object does (shorter first, then
// bytewise) and reports whether they are unique.
func SortKeys(keys []string, kids []*JNode) bool {
	idx := make([]int, len(keys))
	for i := range idx {
		idx[i] = i
	}
	sort.SliceStable(idx, func(a, b int) bool {
		ka, kb := keys[idx[a]], keys[idx[b]]
		if len(ka) != len(kb) {
			return len(ka) < len(kb)
		}
		return ka < kb
	})
	nk := make([]string, len(keys))
	nv := make([]*JNode, len(keys))
	for i, j := range idx {
		nk[i], nv[i] = keys[j], kids[j]
	}
	copy(keys, nk)
	copy(kids, nv)
	for i := 1; i < len(keys); i++ {
		if keys[i] == keys[i-1] {
			return false
		}
	}
	return true
}

func varLen(n int) []byte {
	var b []byte
	for {
		c := byte(n & 0x7f)
		n >>= 7
		if n != 0 {
			b = append(b, c|0x80)
		} else {
			return append(b, c)
		}
	}
}

// scalarType returns the type byte of a non-container node and its
// serialised value (without the type byte).
func scalar(n *JNode) (byte, []byte) {
	switch n.K {
	case JNull:
		return jbLiteral, []byte{0}
	case JTrue:
		return jbLiteral, []byte{1}
	case JFalse:
		return jbLiteral, []byte{2}
	case JInt:
		switch {
		case n.I >= math.MinInt16 && n.I <= math.MaxInt16:
			return jbInt16, IntLE(uint64(n.I), 2)
		case n.I >= math.MinInt32 && n.I <= math.MaxInt32:
			return jbInt32, IntLE(uint64(n.I), 4)
		default:
			return jbInt64, IntLE(uint64(n.I), 8)
		}
	case JUint:
		switch {
		case n.U <= math.MaxUint16:
			return jbUint16, IntLE(n.U, 2)
		case n.U <= math.MaxUint32:
			return jbUint32, IntLE(n.U, 4)
		default:
			return jbUint64, IntLE(n.U, 8)
		}
	case JDouble:
		b := make([]byte, 8)
		binary.LittleEndian.PutUint64(b, n.U)
		return jbDouble, b
	case JString:
		s := n.S.Bytes()
		return jbString, append(varLen(len(s)), s...)
	case JDate:
		p := PackedTemporal(false, n.Y, n.Mo, n.D, 0, 0, 0, 0)
		return jbOpaque, append(append([]byte{TDate}, varLen(8)...), p...)
	case JTime:
		p := PackedTemporal(n.Neg, 0, 0, 0, n.H, n.Mi, n.Sec, n.Us)
		return jbOpaque, append(append([]byte{TTime}, varLen(8)...), p...)
	case JDateTime:
		p := PackedTemporal(false, n.Y, n.Mo, n.D, n.H, n.Mi, n.Sec, n.Us)
		return jbOpaque, append(append([]byte{TDateTime}, varLen(8)...), p...)
	case JDecimal:
		bin := append([]byte{byte(n.P), byte(n.Sc)}, Decimal2Bin(n.Digits, n.P, n.Sc, n.Neg)...)
		return jbOpaque, append(append([]byte{TNewDecimal}, varLen(len(bin))...), bin...)
	}
	panic("refenc: not a scalar")
}

func inlinable(t byte, large bool) bool {
	switch t {
	case jbLiteral, jbInt16, jbUint16:
		return true
	case jbInt32, jbUint32:
		return large
	}
	return false
}

// JSONStats reports which format features a serialisation used.
type JSONStats struct {
	LargeContainers, SmallContainers, SmallInLarge int
	Inlined, OutOfLine                             int
	Depth                                          int
}

func (st *JSONStats) merge(o JSONStats) {
	st.LargeContainers += o.LargeContainers
	st.SmallContainers += o.SmallContainers
	st.SmallInLarge += o.SmallInLarge
	st.Inlined += o.Inlined
	st.OutOfLine += o.OutOfLine
	if o.Depth > st.Depth {
		st.Depth = o.Depth
	}
}

// container serialises an object or array in the given format; ok=false means
// VALUE_TOO_BIG (only possible in the small format).
func container(n *JNode, large bool, depth int, st *JSONStats) ([]byte, bool) {
	osz := 2
	if large {
		osz = 4
	}
	put := func(b []byte, at int, v int) {
		for i := 0; i < osz; i++ {
			b[at+i] = byte(v >> (8 * uint(i)))
		}
	}
	cnt := len(n.Kids)
	if !large && cnt > 0xffff {
		return nil, false
	}
	isObj := n.K == JObject
	hdr := 2 * osz
	keyEntries := 0
	if isObj {
		keyEntries = cnt * (osz + 2)
	}
	valEntries := cnt * (1 + osz)
	b := make([]byte, hdr+keyEntries+valEntries)
	put(b, 0, cnt)
	if isObj {
		for i, k := range n.Keys {
			off := len(b)
			if !large && off > 0xffff {
				return nil, false
			}
			if len(k) > 0xffff {
				panic("refenc: key too long")
			}
			e := hdr + i*(osz+2)
			put(b, e, off)
			b[e+osz] = byte(len(k))
			b[e+osz+1] = byte(len(k) >> 8)
			b = append(b, k...)
		}
	}
	for i, kid := range n.Kids {
		e := hdr + keyEntries + i*(1+osz)
		if kid.K == JObject || kid.K == JArray {
			off := len(b)
			if !large && off > 0xffff {
				return nil, false
			}
			var sub []byte
			ok := false
			subLarge := false
			if !(kid.Large && large) {
				var tmp JSONStats
				sub, ok = container(kid, false, depth+1, &tmp)
				if ok && st != nil {
					st.merge(tmp)
				}
			}
			if !ok {
				if !large {
					return nil, false // the small parent has to grow too
				}
				sub, _ = container(kid, true, depth+1, st)
				subLarge = true
			}
			switch {
			case kid.K == JObject && subLarge:
				b[e] = jbLargeObject
			case kid.K == JObject:
				b[e] = jbSmallObject
			case subLarge:
				b[e] = jbLargeArray
			default:
				b[e] = jbSmallArray
			}
			if st != nil {
				st.OutOfLine++
				if large && !subLarge {
					st.SmallInLarge++
				}
			}
			put(b, e+1, off)
			b = append(b, sub...)
			continue
		}
		t, v := scalar(kid)
		b[e] = t
		if inlinable(t, large) {
			copy(b[e+1:], v)
			if st != nil {
				st.Inlined++
			}
			continue
		}
		off := len(b)
		if !large && off > 0xffff {
			return nil, false
		}
		put(b, e+1, off)
		b = append(b, v...)
		if st != nil {
			st.OutOfLine++
		}
	}
	if !large && len(b) > 0xffff {
		return nil, false
	}
	put(b, osz, len(b))
	if st != nil {
		if large {
			st.LargeContainers++
		} else {
			st.SmallContainers++
		}
		if depth > st.Depth {
			st.Depth = depth
		}
	}
	return b, true
}

// JSONBinary serialises a document as json_binary.cc does: type byte, then the
// value; containers try the small format first and fall back to the large one.
func JSONBinary(n *JNode, st *JSONStats) []byte {
	if n.Empty && n.K == JNull {
		return []byte{}
	}
	if n.K == JObject || n.K == JArray {
		var body []byte
		ok := false
		if !n.Large {
			var tmp JSONStats
			body, ok = container(n, false, 1, &tmp)
			if ok && st != nil {
				*st = tmp
			}
		}
		large := false
		if !ok {
			if st != nil {
				*st = JSONStats{}
			}
			body, _ = container(n, true, 1, st)
			large = true
		}
		t := byte(jbSmallObject)
		switch {
		case n.K == JObject && large:
			t = jbLargeObject
		case n.K == JArray && large:
			t = jbLargeArray
		case n.K == JArray:
			t = jbSmallArray
		}
		return append([]byte{t}, body...)
	}
	t, v := scalar(n)
	return append([]byte{t}, v...)
}
