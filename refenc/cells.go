package refenc

import "encoding/binary"

// Column type codes (mysql_com.h / field_types.h).
const (
	TDecimal    = 0
	TTiny       = 1
	TShort      = 2
	TLong       = 3
	TFloat      = 4
	TDouble     = 5
	TNull       = 6
	TTimestamp  = 7
	TLongLong   = 8
	TInt24      = 9
	TDate       = 10
	TTime       = 11
	TDateTime   = 12
	TYear       = 13
	TNewDate    = 14
	TVarchar    = 15
	TBit        = 16
	TTimestamp2 = 17
	TDateTime2  = 18
	TTime2      = 19
	TJSON       = 245
	TNewDecimal = 246
	TEnum       = 247
	TSet        = 248
	TTinyBlob   = 249
	TMediumBlob = 250
	TLongBlob   = 251
	TBlob       = 252
	TVarString  = 253
	TString     = 254
	TGeometry   = 255
)

// IntLE writes the low n bytes of v little-endian.
func IntLE(v uint64, n int) []byte {
	b := make([]byte, n)
	for i := 0; i < n; i++ {
		b[i] = byte(v >> (8 * uint(i)))
	}
	return b
}

// IntBE writes the low n bytes of v big-endian.
func IntBE(v uint64, n int) []byte {
	b := make([]byte, n)
	for i := 0; i < n; i++ {
		b[n-1-i] = byte(v >> (8 * uint(i)))
	}
	return b
}

// Dig2Bytes is decimal.c's dig2bytes.
var Dig2Bytes = [10]int{0, 1, 1, 2, 2, 3, 3, 4, 4, 4}

// DecimalBinSize is decimal_bin_size(precision, scale).
func DecimalBinSize(p, s int) int {
	intg := p - s
	return intg/9*4 + Dig2Bytes[intg%9] + s/9*4 + Dig2Bytes[s%9]
}

func digitsVal(d string) uint64 {
	var v uint64
	for i := 0; i < len(d); i++ {
		v = v*10 + uint64(d[i]-'0')
	}
	return v
}

// Decimal2Bin encodes the p decimal digits (intg = p-s integer digits followed
// by s fraction digits, no separator) as decimal2bin() does.
func Decimal2Bin(digits string, p, s int, neg bool) []byte {
	intg := p - s
	var b []byte
	pos := 0
	if x := intg % 9; x > 0 {
		b = append(b, IntBE(digitsVal(digits[pos:pos+x]), Dig2Bytes[x])...)
		pos += x
	}
	for i := 0; i < intg/9; i++ {
		b = append(b, IntBE(digitsVal(digits[pos:pos+9]), 4)...)
		pos += 9
	}
	for i := 0; i < s/9; i++ {
		b = append(b, IntBE(digitsVal(digits[pos:pos+9]), 4)...)
		pos += 9
	}
	if x := s % 9; x > 0 {
		b = append(b, IntBE(digitsVal(digits[pos:pos+x]), Dig2Bytes[x])...)
		pos += x
	}
	if neg {
		for i := range b {
			b[i] ^= 0xff
		}
	}
	b[0] ^= 0x80
	return b
}

// DateOld: 3 bytes LE = day | month<<5 | year<<9.
func DateOld(y, m, d int) []byte {
	return IntLE(uint64(d)|uint64(m)<<5|uint64(y)<<9, 3)
}

// TimeOld: 3 bytes LE signed = +-(h*10000+m*100+s).
func TimeOld(neg bool, h, m, s int) []byte {
	v := int64(h*10000 + m*100 + s)
	if neg {
		v = -v
	}
	return IntLE(uint64(v), 3)
}

// DateTimeOld: 8 bytes LE decimal YYYYMMDDhhmmss.
func DateTimeOld(y, mo, d, h, mi, s int) []byte {
	v := uint64(y)*10000000000 + uint64(mo)*100000000 + uint64(d)*1000000 + uint64(h)*10000 + uint64(mi)*100 + uint64(s)
	return IntLE(v, 8)
}

// fracBytes is the fractional part shared by TIMESTAMP2 and DATETIME2.
func fracBytes(usec int, fsp int) []byte {
	switch fsp {
	case 1, 2:
		return []byte{byte(usec / 10000)}
	case 3, 4:
		return IntBE(uint64(usec/100), 2)
	case 5, 6:
		return IntBE(uint64(usec), 3)
	}
	return nil
}

// Timestamp2: seconds 4 BE + frac.
func Timestamp2(sec uint32, usec int, fsp int) []byte {
	return append(IntBE(uint64(sec), 4), fracBytes(usec, fsp)...)
}

// DateTime2: 5 BE of packed int part + 0x8000000000, + frac.
func DateTime2(y, mo, d, h, mi, s, usec, fsp int) []byte {
	ymd := uint64(y*13+mo)<<5 | uint64(d)
	hms := uint64(h)<<12 | uint64(mi)<<6 | uint64(s)
	return append(IntBE((ymd<<17|hms)+0x8000000000, 5), fracBytes(usec, fsp)...)
}

// Time2 is my_time_packed_to_binary for TIME.
func Time2(neg bool, h, mi, s, usec, fsp int) []byte {
	nr := (int64(h)<<12|int64(mi)<<6|int64(s))<<24 | int64(usec)
	if neg {
		nr = -nr
	}
	intPart := nr >> 24        // arithmetic shift: floor
	fracPart := nr % (1 << 24) // C remainder: sign of the dividend
	switch fsp {
	case 0:
		return IntBE(uint64(0x800000+intPart), 3)
	case 1, 2:
		return append(IntBE(uint64(0x800000+intPart), 3), byte(int8(fracPart/10000)))
	case 3, 4:
		return append(IntBE(uint64(0x800000+intPart), 3), IntBE(uint64(fracPart/100), 2)...)
	default:
		return IntBE(uint64(nr+0x800000000000), 6)
	}
}

// PackedTemporal is the 64-bit packed value used by opaque JSON temporals:
// (((y*13+mo)<<5|d)<<17 | h<<12|mi<<6|s)<<24 | usec, negated as a whole for
// negative TIME; little-endian 8 bytes.
func PackedTemporal(neg bool, y, mo, d, h, mi, s, usec int) []byte {
	ymd := int64(y*13+mo)<<5 | int64(d)
	hms := int64(h)<<12 | int64(mi)<<6 | int64(s)
	v := (ymd<<17|hms)<<24 | int64(usec)
	if neg {
		v = -v
	}
	b := make([]byte, 8)
	binary.LittleEndian.PutUint64(b, uint64(v))
	return b
}

// LenPrefixed prefixes data with its length in n little-endian bytes.
func LenPrefixed(data []byte, n int) []byte {
	return append(IntLE(uint64(len(data)), n), data...)
}
