// Package refenc is an encoder for the MySQL binlog wire formats, written from
// the protocol documentation and the server sources (log_event.cc, decimal.c,
// my_time.c, json_binary.cc).  It deliberately shares no code with
// github.com/Breeze0806/gobinlog/replication: it is the "master" side of every
// check, and an encode/decode mistake that is symmetric inside the library
// cannot hide here.
package refenc

import (
	"encoding/binary"
	"hash/crc32"
)

// Event type codes (binlog_event.h).
const (
	EvUnknown        = 0
	EvQuery          = 2
	EvStop           = 3
	EvRotate         = 4
	EvIntVar         = 5
	EvRand           = 13
	EvUserVar        = 14
	EvFormatDesc     = 15
	EvXID            = 16
	EvTableMap       = 19
	EvWriteRowsV1    = 23
	EvUpdateRowsV1   = 24
	EvDeleteRowsV1   = 25
	EvIncident       = 26
	EvHeartbeat      = 27
	EvIgnorable      = 28
	EvRowsQuery      = 29
	EvWriteRowsV2    = 30
	EvUpdateRowsV2   = 31
	EvDeleteRowsV2   = 32
	EvGTID           = 33
	EvAnonymousGTID  = 34
	EvPreviousGTIDs  = 35
	EvTxContext      = 36
	EvViewChange     = 37
	EvXAPrepare      = 38
	FlagArtificial   = 0x20
	FlagStmtEnd      = 0x0001
	ChecksumOff      = 0
	ChecksumCRC32    = 1
	ChecksumUndef    = 255
	BinlogHeaderSize = 4
)

// Header is the 19-byte common header.
type Header struct {
	Timestamp uint32
	Type      byte
	ServerID  uint32
	LogPos    uint32
	Flags     uint16
}

// BuildEvent lays out header + body (+ CRC32 when crc is set).  event_size and
// the checksum are computed here; log_pos is whatever the caller says (end offset
// of the event in its file, or 0 for artificial events).
func BuildEvent(h Header, body []byte, crc bool) []byte {
	size := 19 + len(body)
	if crc {
		size += 4
	}
	b := make([]byte, 19, size)
	binary.LittleEndian.PutUint32(b[0:], h.Timestamp)
	b[4] = h.Type
	binary.LittleEndian.PutUint32(b[5:], h.ServerID)
	binary.LittleEndian.PutUint32(b[9:], uint32(size))
	binary.LittleEndian.PutUint32(b[13:], h.LogPos)
	binary.LittleEndian.PutUint16(b[17:], h.Flags)
	b = append(b, body...)
	if crc {
		var c [4]byte
		binary.LittleEndian.PutUint32(c[:], crc32.ChecksumIEEE(b))
		b = append(b, c[:]...)
	}
	return b
}

// EventSize is the size BuildEvent will produce.
func EventSize(bodyLen int, crc bool) int {
	if crc {
		return 19 + bodyLen + 4
	}
	return 19 + bodyLen
}

// FDEBody: binlog_version(2) server_version(50) create_ts(4) header_len(1)
// post_header_len[N] checksum_alg(1).  The trailing CRC is added by BuildEvent
// (always, for 5.6.1+ masters, whatever the algorithm).
func FDEBody(version uint16, serverVersion string, createTS uint32, headerLen byte, sizes []byte, alg byte) []byte {
	b := make([]byte, 2+50+4+1, 2+50+4+1+len(sizes)+1)
	binary.LittleEndian.PutUint16(b, version)
	copy(b[2:52], serverVersion)
	binary.LittleEndian.PutUint32(b[52:], createTS)
	b[56] = headerLen
	b = append(b, sizes...)
	b = append(b, alg)
	return b
}

// RotateBody: position(8) name.
func RotateBody(pos uint64, name string) []byte {
	b := make([]byte, 8, 8+len(name))
	binary.LittleEndian.PutUint64(b, pos)
	return append(b, name...)
}

// XIDBody: xid(8).
func XIDBody(xid uint64) []byte {
	b := make([]byte, 8)
	binary.LittleEndian.PutUint64(b, xid)
	return b
}

// IntVarBody: id(1) value(8).
func IntVarBody(id byte, v uint64) []byte {
	b := make([]byte, 9)
	b[0] = id
	binary.LittleEndian.PutUint64(b[1:], v)
	return b
}

// RandBody: seed1(8) seed2(8).
func RandBody(s1, s2 uint64) []byte {
	b := make([]byte, 16)
	binary.LittleEndian.PutUint64(b, s1)
	binary.LittleEndian.PutUint64(b[8:], s2)
	return b
}

// RowsQueryBody: len(1) text (the length byte is ignored by readers).
func RowsQueryBody(text string) []byte {
	b := []byte{byte(len(text))}
	return append(b, text...)
}

// QueryBody: thread_id(4) exec_time(4) db_len(1) error_code(2)
// status_vars_len(2) status_vars db \0 sql.
func QueryBody(threadID, execTime uint32, errCode uint16, statusVars []byte, db, sql string) []byte {
	b := make([]byte, 13, 13+len(statusVars)+len(db)+1+len(sql))
	binary.LittleEndian.PutUint32(b, threadID)
	binary.LittleEndian.PutUint32(b[4:], execTime)
	b[8] = byte(len(db))
	binary.LittleEndian.PutUint16(b[9:], errCode)
	binary.LittleEndian.PutUint16(b[11:], uint16(len(statusVars)))
	b = append(b, statusVars...)
	b = append(b, db...)
	b = append(b, 0)
	b = append(b, sql...)
	return b
}

// StatusVar is one query status variable with its raw payload.
type StatusVar struct {
	Code    byte
	Payload []byte
}

// StatusVarOrder is the order in which Query_log_event::write emits them.
var StatusVarOrder = []byte{0, 1, 6, 3, 4, 5, 7, 8, 9, 10, 11, 12, 13, 16, 17, 18, 19, 20}

// StatusVars concatenates code+payload.
func StatusVars(vs []StatusVar) []byte {
	var b []byte
	for _, v := range vs {
		b = append(b, v.Code)
		b = append(b, v.Payload...)
	}
	return b
}

// CharsetVar is Q_CHARSET_CODE's payload.
func CharsetVar(client, conn, server uint16) StatusVar {
	p := make([]byte, 6)
	binary.LittleEndian.PutUint16(p, client)
	binary.LittleEndian.PutUint16(p[2:], conn)
	binary.LittleEndian.PutUint16(p[4:], server)
	return StatusVar{4, p}
}

// GTIDBody: flags(1) sid(16) gno(8) [lt_type(1)=2 last_committed(8) sequence_number(8)].
func GTIDBody(flags byte, sid [16]byte, gno int64, v57 bool, lastCommitted, seqNo int64) []byte {
	b := make([]byte, 25, 42)
	b[0] = flags
	copy(b[1:], sid[:])
	binary.LittleEndian.PutUint64(b[17:], uint64(gno))
	if v57 {
		b = append(b, 2)
		var t [16]byte
		binary.LittleEndian.PutUint64(t[:], uint64(lastCommitted))
		binary.LittleEndian.PutUint64(t[8:], uint64(seqNo))
		b = append(b, t[:]...)
	}
	return b
}

// SIDIntervals is one UUID with its closed intervals [Start, End].
type SIDIntervals struct {
	SID       [16]byte
	Intervals [][2]int64
}

// SIDBlock: n_sids(8) then per sid: sid(16) n_intervals(8) (start(8) end_exclusive(8))*.
func SIDBlock(sids []SIDIntervals) []byte {
	b := make([]byte, 8)
	binary.LittleEndian.PutUint64(b, uint64(len(sids)))
	for _, s := range sids {
		b = append(b, s.SID[:]...)
		var t [8]byte
		binary.LittleEndian.PutUint64(t[:], uint64(len(s.Intervals)))
		b = append(b, t[:]...)
		for _, iv := range s.Intervals {
			binary.LittleEndian.PutUint64(t[:], uint64(iv[0]))
			b = append(b, t[:]...)
			binary.LittleEndian.PutUint64(t[:], uint64(iv[1]+1))
			b = append(b, t[:]...)
		}
	}
	return b
}

// MariaGTIDBody: seq_no(8) domain(4) flags2(1) + padding to 19 bytes (10.0 layout).
func MariaGTIDBody(seq uint64, domain uint32, flags2 byte) []byte {
	b := make([]byte, 19)
	binary.LittleEndian.PutUint64(b, seq)
	binary.LittleEndian.PutUint32(b[8:], domain)
	b[12] = flags2
	return b
}

// LenEnc appends a length-encoded integer.
func LenEnc(b []byte, n uint64) []byte {
	switch {
	case n < 251:
		return append(b, byte(n))
	case n < 1<<16:
		return append(b, 0xfc, byte(n), byte(n>>8))
	case n < 1<<24:
		return append(b, 0xfd, byte(n), byte(n>>8), byte(n>>16))
	default:
		var t [8]byte
		binary.LittleEndian.PutUint64(t[:], n)
		return append(append(b, 0xfe), t[:]...)
	}
}

// Bitmap packs bits LSB-first, (n+7)/8 bytes, unused bits zero.
func Bitmap(bits []bool) []byte { return BitmapPad(bits, false) }

// BitmapPad is Bitmap with the unused high bits of the last byte set to one when
// padOnes is true (mysqld leaves them set in per-row NULL bitmaps, and in
// presence bitmaps produced by bitmap_set_all).
func BitmapPad(bits []bool, padOnes bool) []byte {
	b := make([]byte, (len(bits)+7)/8)
	for i, v := range bits {
		if v {
			b[i/8] |= 1 << uint(i%8)
		}
	}
	if padOnes && len(bits)%8 != 0 {
		b[len(b)-1] |= 0xff << uint(len(bits)%8)
	}
	return b
}

func tableID(b []byte, idBytes int, id uint64) []byte {
	for i := 0; i < idBytes; i++ {
		b = append(b, byte(id>>(8*uint(i))))
	}
	return b
}

// TableMapBody: table_id(6|4) flags(2) db_len(1) db \0 tbl_len(1) tbl \0
// column_count(lenenc) types[cc] metadata_len(lenenc) metadata null_bitmap
// [optional metadata TLVs].
func TableMapBody(idBytes int, id uint64, flags uint16, db, tbl string, types []byte, meta []byte, nullable []bool, optional []byte) []byte {
	b := tableID(nil, idBytes, id)
	b = append(b, byte(flags), byte(flags>>8))
	b = append(b, byte(len(db)))
	b = append(b, db...)
	b = append(b, 0, byte(len(tbl)))
	b = append(b, tbl...)
	b = append(b, 0)
	b = LenEnc(b, uint64(len(types)))
	b = append(b, types...)
	b = LenEnc(b, uint64(len(meta)))
	b = append(b, meta...)
	b = append(b, Bitmap(nullable)...)
	b = append(b, optional...)
	return b
}

// OptionalTLV is one MySQL-8 optional metadata field: type(1) len(lenenc) value.
func OptionalTLV(typ byte, value []byte) []byte {
	b := []byte{typ}
	b = LenEnc(b, uint64(len(value)))
	return append(b, value...)
}

// RowsBody: table_id flags [v2: extra_len(2, counts itself) extra]
// column_count(lenenc) present_1 [update: present_2] rows...
// Each entry of rows is the already-encoded bytes of one row (null bitmaps +
// values for the image(s) the event kind carries).
func RowsBody(idBytes int, id uint64, flags uint16, v2 bool, extra []byte, ncols int, present1, present2 []bool, rows [][]byte) []byte {
	return RowsBodyPad(idBytes, id, flags, v2, extra, ncols, present1, present2, rows, false)
}

// RowsBodyPad is RowsBody with a choice of padding for the presence bitmaps.
func RowsBodyPad(idBytes int, id uint64, flags uint16, v2 bool, extra []byte, ncols int, present1, present2 []bool, rows [][]byte, padOnes bool) []byte {
	b := tableID(nil, idBytes, id)
	b = append(b, byte(flags), byte(flags>>8))
	if v2 {
		n := 2 + len(extra)
		b = append(b, byte(n), byte(n>>8))
		b = append(b, extra...)
	}
	b = LenEnc(b, uint64(ncols))
	b = append(b, BitmapPad(present1, padOnes)...)
	if present2 != nil {
		b = append(b, BitmapPad(present2, padOnes)...)
	}
	for _, r := range rows {
		b = append(b, r...)
	}
	return b
}

// Image encodes one row image: null bitmap over the *present* columns followed
// by the cells of present, non-NULL columns.  cells[i] == nil means NULL for
// present column i (an empty value is a non-nil slice of the cell's bytes,
// which always has at least a length prefix or fixed width, except zero-width
// types which use a non-nil empty slice).
func Image(present []bool, null []bool, cells [][]byte) []byte {
	return ImagePad(present, null, cells, false)
}

// ImagePad is Image with a choice of padding for the NULL bitmap.
func ImagePad(present []bool, null []bool, cells [][]byte, padOnes bool) []byte {
	var nb []bool
	for c, p := range present {
		if p {
			nb = append(nb, null[c])
		}
	}
	b := BitmapPad(nb, padOnes)
	for c, p := range present {
		if p && !null[c] {
			b = append(b, cells[c]...)
		}
	}
	return b
}

// StdHeaderSizes returns a post-header length table with n entries (n >= 27)
// in which the entries this harness relies on have their real values and the
// others the values of a 5.7/8.0 master (0 beyond the known range).
func StdHeaderSizes(n int, idBytes int) []byte {
	base := []byte{56, 13, 0, 8, 0, 18, 0, 4, 4, 4, 4, 18, 0, 0, 95, 0, 4, 26, 8, 0, 0, 0, 8, 8, 8, 2, 0,
		0, 0, 10, 10, 10, 42, 42, 0, 18, 52, 0, 28, 0, 0}
	t := make([]byte, n)
	copy(t, base)
	if n >= 15 {
		t[14] = byte(2 + 50 + 4 + 1 + n) // FDE post-header length depends on the table size
	}
	if idBytes == 4 {
		t[EvTableMap-1] = 6
		t[EvWriteRowsV1-1] = 6
		t[EvUpdateRowsV1-1] = 6
		t[EvDeleteRowsV1-1] = 6
	}
	return t
}
