package refenc

// Blob denotes a byte string either literally (Lit) or as expand(K, S, N): a
// pure function of three drawn integers, so that 64 KiB values stay cheap to
// draw, shrink and store in replay files.
type Blob struct {
	Lit []byte `json:",omitempty"`
	K   int    `json:",omitempty"` // 0 literal; 1 zeros; 2 0xff; 3 ASCII ramp; 4 LCG bytes; 5 UTF-8 text; 6 packet-header look-alikes; 7 quote-free printable
	S   uint32 `json:",omitempty"`
	N   int    `json:",omitempty"`
}

// Lit makes a literal blob.
func Lit(b []byte) Blob { return Blob{Lit: append([]byte{}, b...)} }

// Len is the byte length.
func (b Blob) Len() int {
	if b.K == 0 {
		return len(b.Lit)
	}
	return len(b.Bytes())
}

// Bytes materialises the blob (always non-nil).
func (b Blob) Bytes() []byte {
	if b.K == 0 {
		if b.Lit == nil {
			return []byte{}
		}
		return b.Lit
	}
	out := make([]byte, 0, b.N)
	x := b.S*2654435761 + 12345
	next := func() uint32 {
		x = x*1664525 + 1013904223
		return x >> 8
	}
	switch b.K {
	case 1:
		return make([]byte, b.N)
	case 2:
		for i := 0; i < b.N; i++ {
			out = append(out, 0xff)
		}
	case 3:
		for i := 0; i < b.N; i++ {
			out = append(out, byte(0x20+(int(b.S)+i)%95))
		}
	case 4:
		for i := 0; i < b.N; i++ {
			out = append(out, byte(next()))
		}
	case 5:
		runes := []string{"a", "Z", "0", " ", "é", "ß", "中", "文", "😀", "\n", "\t", "\\", "<", "&"}
		for len(out) < b.N {
			r := runes[int(next())%len(runes)]
			if len(out)+len(r) > b.N {
				r = "x"
			}
			out = append(out, r...)
		}
	case 6:
		pat := [][]byte{{0xfe, 0, 0, 2, 0}, {0xff, 0x15, 0x04, '#', 'H', 'Y'}, {5, 0, 0, 1}, {0, 0, 0, 0}, {0xfe}, {0xff}, {0x00}}
		for len(out) < b.N {
			p := pat[int(next())%len(pat)]
			for _, c := range p {
				if len(out) < b.N {
					out = append(out, c)
				}
			}
		}
	default: // 7: printable ASCII without ' " and backslash
		const al = "abcdefghijklmnopqrstuvwxyzABCDEFGHIJKLMNOPQRSTUVWXYZ0123456789 _-.,:;()[]{}<>&/=+*!?#@$%^|~"
		for i := 0; i < b.N; i++ {
			out = append(out, al[int(next())%len(al)])
		}
	}
	return out
}
