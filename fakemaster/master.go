// Package fakemaster is a loopback MySQL master: it speaks enough of the wire
// protocol (handshake v10, auth OK, COM_QUERY, COM_BINLOG_DUMP, packet framing
// and sequence numbers) for the unmodified driver and library to run against it,
// logs every command it receives, serves a scripted packet sequence with a
// chosen pacing and injects transport and protocol faults.
package fakemaster

import (
	"encoding/binary"
	"errors"
	"fmt"
	"io"
	"net"
	"runtime"
	"strings"
	"sync"
	"sync/atomic"
	"time"
)

// Command is one command received from the replica.
type Command struct {
	Code byte
	// COM_QUERY
	Query string
	// COM_BINLOG_DUMP
	Pos      uint32
	Flags    uint16
	ServerID uint32
	File     string
	Raw      []byte
}

// Action says what happens after a step was written.
type Action int

// Step actions.
const (
	Continue Action = iota
	CloseFIN        // orderly close
	CloseRST        // SO_LINGER 0 close
	Hold            // stop sending, keep the socket open until the peer closes (or the plan is released)
)

// Step is one thing the master writes during a dump.
type Step struct {
	Payload []byte // packet payload; framed with the running sequence number
	Raw     []byte // if non-nil, written verbatim instead (short packets etc.)
	SeqSkew int    // added to the sequence number of this packet (out-of-sequence fault)
	Short   int    // if > 0: the header promises the whole payload but only Short-1 payload bytes are sent
	Then    Action
	Tag     int // caller's label (e.g. index of the history event carried), reported to the gate
	Aux     int // caller's second label (the harness stores the index of the binlog file whose format is in force after this step)
}

// ErrPacket builds an ERR payload.
func ErrPacket(code uint16, sqlstate string, msg string) []byte {
	b := []byte{0xff, byte(code), byte(code >> 8)}
	if sqlstate != "" {
		b = append(b, '#')
		b = append(b, (sqlstate + "00000")[:5]...)
	}
	return append(b, msg...)
}

// EOFPacket is the EOF payload a master sends to end a non-blocking dump.
func EOFPacket() []byte { return []byte{0xfe, 0, 0, 2, 0} }

// EventPacket wraps an event for the dump stream.
func EventPacket(ev []byte) []byte { return append([]byte{0}, ev...) }

// ConnPlan scripts one accepted connection.
type ConnPlan struct {
	// faults before the dump
	HandshakeErr  []byte        // ERR payload sent instead of the handshake
	CloseAtAccept bool          // close right after accept
	StallAccept   chan struct{} // if non-nil: wait for it (or peer close) before the handshake
	// ERR payload in answer to the statement that announces checksum awareness (the one naming
	// binlog_checksum, whatever its case or position among the session's statements; every other
	// statement - a replica may send further session settings before the dump - is answered with OK)
	QueryErr []byte
	OnQuery  func(n int) // called with the 1-based number of each COM_QUERY before it is answered
	// Chop != 0: everything the master writes reaches the socket in pieces of pseudo-random sizes (1 byte ..
	// 16 KiB, seeded by this value) with occasional yields in between, so that packet headers and bodies
	// arrive split over several reads on the replica's side
	Chop    uint32
	AuthErr []byte // ERR payload in answer to the handshake response

	// OnDump builds the dump script from the decoded request.
	OnDump func(req Command) []Step
	// Gate, if set, is called before step i is written (pacing).  It may block.
	// Returning false aborts the script (connection is closed).
	Gate func(i int, s *Step) bool

	// results
	mu           sync.Mutex
	Commands     []Command
	written      int32         // steps fully written
	started      int32         // steps whose write has begun
	PeerClosed   chan struct{} // closed when the replica's side of the socket is seen closed
	Finished     chan struct{} // closed when the connection handler has returned
	Err          error         // harness-level problem talking to the replica
	release      chan struct{}
	relOnce      sync.Once
	conn         net.Conn
	weClosed     int32
	peerFirst    int32
	accepted     int32
	queryErrSent bool
}

// Accepted reports whether a connection was ever handed to this plan.
func (p *ConnPlan) Accepted() bool { return atomic.LoadInt32(&p.accepted) == 1 }

// QueryErrSent reports whether the QueryErr answer was actually given (a replica that never announces
// checksum awareness is never refused).
func (p *ConnPlan) QueryErrSent() bool {
	p.mu.Lock()
	defer p.mu.Unlock()
	return p.queryErrSent
}

func (p *ConnPlan) isReleased() bool {
	select {
	case <-p.release:
		return true
	default:
		return false
	}
}

// PeerInitiated reports whether the replica closed the connection before the
// master did.
func (p *ConnPlan) PeerInitiated() bool { return atomic.LoadInt32(&p.peerFirst) == 1 }

func (p *ConnPlan) closeConn(c net.Conn) {
	atomic.StoreInt32(&p.weClosed, 1)
	c.Close()
}

// Started returns how many steps the master has begun to write (a replica cannot
// have read a byte of a step that was not started).
func (p *ConnPlan) Started() int { return int(atomic.LoadInt32(&p.started)) }

// Written returns how many steps have been written completely.
func (p *ConnPlan) Written() int { return int(atomic.LoadInt32(&p.written)) }

// Cmds returns a copy of the command log.
func (p *ConnPlan) Cmds() []Command {
	p.mu.Lock()
	defer p.mu.Unlock()
	return append([]Command{}, p.Commands...)
}

// Release lets a connection that is holding finish (closes the socket).
func (p *ConnPlan) Release() {
	p.relOnce.Do(func() { close(p.release) })
}

// Master is one listener.
type Master struct {
	ln     net.Listener
	mu     sync.Mutex
	plans  []*ConnPlan
	next   int
	extra  int32 // connections beyond the plan
	wg     sync.WaitGroup
	closed int32
	conns  []net.Conn
}

// New starts a master on a loopback port.
func New() (*Master, error) {
	ln, err := net.Listen("tcp4", "127.0.0.1:0")
	if err != nil {
		return nil, err
	}
	m := &Master{ln: ln}
	m.wg.Add(1)
	go m.acceptLoop()
	return m, nil
}

// Addr is host:port.
func (m *Master) Addr() string { return m.ln.Addr().String() }

// DSN for the driver.
func (m *Master) DSN() string { return "u:p@tcp(" + m.Addr() + ")/db" }

// DSNNet is the DSN over a custom registered network name.
func (m *Master) DSNNet(network string) string { return "u:p@" + network + "(" + m.Addr() + ")/db" }

// Plan appends a connection plan; connections are matched to plans in order.
func (m *Master) Plan(p *ConnPlan) *ConnPlan {
	p.PeerClosed = make(chan struct{})
	p.Finished = make(chan struct{})
	p.release = make(chan struct{})
	m.mu.Lock()
	m.plans = append(m.plans, p)
	m.mu.Unlock()
	return p
}

// ExtraConns reports connections that arrived with no plan left.
func (m *Master) ExtraConns() int { return int(atomic.LoadInt32(&m.extra)) }

// CloseListener stops accepting (later connects are refused).
func (m *Master) CloseListener() {
	if atomic.CompareAndSwapInt32(&m.closed, 0, 1) {
		m.ln.Close()
	}
}

// Close stops the listener, releases all plans and waits for handlers.
func (m *Master) Close() {
	m.CloseListener()
	m.mu.Lock()
	for _, p := range m.plans {
		p.Release()
	}
	// a replica that leaked its socket would keep a handler waiting forever: force the issue
	for _, c := range m.conns {
		c.Close()
	}
	m.mu.Unlock()
	m.wg.Wait()
}

func (m *Master) acceptLoop() {
	defer m.wg.Done()
	for {
		c, err := m.ln.Accept()
		if err != nil {
			return
		}
		m.mu.Lock()
		m.conns = append(m.conns, c)
		var p *ConnPlan
		// a plan whose attempt is over without ever having connected (the attempt failed or was cancelled
		// before it dialled) is not handed to a later attempt's connection
		for m.next < len(m.plans) && m.plans[m.next].isReleased() {
			m.next++
		}
		if m.next < len(m.plans) {
			p = m.plans[m.next]
			m.next++
		}
		m.mu.Unlock()
		if p == nil {
			atomic.AddInt32(&m.extra, 1)
			c.Close()
			continue
		}
		atomic.StoreInt32(&p.accepted, 1)
		m.wg.Add(1)
		go func() {
			defer m.wg.Done()
			p.serve(c)
		}()
	}
}

func writePacket(c net.Conn, seq byte, payload []byte) error {
	_, err := writePackets(c, seq, payload)
	return err
}

// writePackets sends a payload as the protocol prescribes: in chunks of 2^24-1 bytes, the last chunk
// being shorter (possibly empty); it returns the number of packets (= sequence numbers) used.
func writePackets(c net.Conn, seq byte, payload []byte) (int, error) {
	const max = 1<<24 - 1
	n := 0
	for {
		chunk := payload
		if len(chunk) > max {
			chunk = chunk[:max]
		}
		hdr := []byte{byte(len(chunk)), byte(len(chunk) >> 8), byte(len(chunk) >> 16), seq + byte(n)}
		if _, err := c.Write(append(hdr, chunk...)); err != nil {
			return n, err
		}
		n++
		payload = payload[len(chunk):]
		if len(chunk) < max {
			return n, nil
		}
	}
}

func readPacket(c net.Conn) (byte, []byte, error) {
	var hdr [4]byte
	if _, err := io.ReadFull(c, hdr[:]); err != nil {
		return 0, nil, err
	}
	n := int(hdr[0]) | int(hdr[1])<<8 | int(hdr[2])<<16
	b := make([]byte, n)
	if _, err := io.ReadFull(c, b); err != nil {
		return 0, nil, err
	}
	return hdr[3], b, nil
}

func handshake() []byte {
	b := []byte{0x0a}
	b = append(b, "5.7.30-log\x00"...)
	b = append(b, 1, 0, 0, 0)
	b = append(b, "abcdefgh"...)
	b = append(b, 0)
	b = append(b, 0xff, 0xf7) // capabilities, lower
	b = append(b, 33)         // charset
	b = append(b, 2, 0)       // status
	b = append(b, 0xff, 0x81) // capabilities, upper
	b = append(b, 21)
	b = append(b, make([]byte, 10)...)
	b = append(b, "ijklmnopqrst\x00"...)
	b = append(b, "mysql_native_password\x00"...)
	return b
}

var okPacket = []byte{0, 0, 0, 2, 0, 0, 0}

func rst(c net.Conn) {
	if cc, ok := c.(*chopConn); ok {
		c = cc.Conn
	}
	if tc, ok := c.(*net.TCPConn); ok {
		tc.SetLinger(0)
	}
	c.Close()
}

// drain reads until the peer closes and then signals PeerClosed.
func (p *ConnPlan) drain(c net.Conn) {
	buf := make([]byte, 512)
	for {
		n, err := c.Read(buf)
		if n > 0 {
			// anything the replica still writes (COM_QUIT) is logged raw
			p.mu.Lock()
			p.Commands = append(p.Commands, Command{Code: buf[min(4, n-1)], Raw: append([]byte{}, buf[:n]...)})
			p.mu.Unlock()
		}
		if err != nil {
			if atomic.LoadInt32(&p.weClosed) == 0 {
				atomic.StoreInt32(&p.peerFirst, 1)
			}
			close(p.PeerClosed)
			return
		}
	}
}

func min(a, b int) int {
	if a < b {
		return a
	}
	return b
}

// chopConn writes in pieces (see ConnPlan.Chop).
type chopConn struct {
	net.Conn
	x uint32
}

var chopSizes = []int{1, 1, 2, 3, 4, 5, 7, 13, 64, 300, 1000, 4095, 4096, 4097, 16384}

func (c *chopConn) Write(b []byte) (int, error) {
	n := 0
	for len(b) > 0 {
		c.x = c.x*1664525 + 1013904223
		k := chopSizes[int(c.x>>16)%len(chopSizes)]
		if k > len(b) {
			k = len(b)
		}
		m, err := c.Conn.Write(b[:k])
		n += m
		if err != nil {
			return n, err
		}
		b = b[k:]
		switch (c.x >> 8) & 7 {
		case 0:
			time.Sleep(20 * time.Microsecond)
		case 1, 2:
			runtime.Gosched()
		}
	}
	return n, nil
}

func (p *ConnPlan) serve(c net.Conn) {
	defer close(p.Finished)
	if p.Chop != 0 {
		if tc, ok := c.(*net.TCPConn); ok {
			tc.SetNoDelay(true)
		}
		c = &chopConn{Conn: c, x: p.Chop}
	}
	p.conn = c
	peerGone := func() {
		select {
		case <-p.PeerClosed:
		default:
			close(p.PeerClosed)
		}
	}
	if p.CloseAtAccept {
		c.Close()
		peerGone()
		return
	}
	if p.StallAccept != nil {
		// wait until released or the peer gives up
		done := make(chan struct{})
		go func() {
			buf := make([]byte, 1)
			c.SetReadDeadline(time.Time{})
			c.Read(buf)
			close(done)
		}()
		select {
		case <-p.StallAccept:
		case <-done:
		case <-p.release:
		}
		c.Close()
		<-done
		peerGone()
		return
	}
	if p.HandshakeErr != nil {
		writePacket(c, 0, p.HandshakeErr)
		c.Close()
		peerGone()
		return
	}
	fail := func(err error) {
		if p.Err == nil {
			p.Err = err
		}
		c.Close()
		peerGone()
	}
	if err := writePacket(c, 0, handshake()); err != nil {
		fail(fmt.Errorf("write handshake: %w", err))
		return
	}
	if _, _, err := readPacket(c); err != nil {
		fail(nil) // the replica gave up during the handshake (cancellation): not a harness error
		return
	}
	if p.AuthErr != nil {
		writePacket(c, 2, p.AuthErr)
		c.Close()
		peerGone()
		return
	}
	if err := writePacket(c, 2, okPacket); err != nil {
		fail(nil)
		return
	}
	for {
		_, b, err := readPacket(c)
		if err != nil {
			c.Close()
			peerGone()
			return
		}
		if len(b) == 0 {
			fail(errors.New("empty command packet"))
			return
		}
		cmd := Command{Code: b[0], Raw: b}
		switch b[0] {
		case 0x03:
			cmd.Query = string(b[1:])
			p.mu.Lock()
			p.Commands = append(p.Commands, cmd)
			p.mu.Unlock()
			if p.OnQuery != nil {
				p.mu.Lock()
				nq := 0
				for _, x := range p.Commands {
					if x.Code == 0x03 {
						nq++
					}
				}
				p.mu.Unlock()
				p.OnQuery(nq)
			}
			if p.QueryErr != nil && strings.Contains(strings.ToLower(cmd.Query), "binlog_checksum") {
				p.mu.Lock()
				p.queryErrSent = true
				p.mu.Unlock()
				writePacket(c, 1, p.QueryErr)
			} else {
				writePacket(c, 1, okPacket)
			}
		case 0x12:
			if len(b) >= 11 {
				cmd.Pos = binary.LittleEndian.Uint32(b[1:])
				cmd.Flags = binary.LittleEndian.Uint16(b[5:])
				cmd.ServerID = binary.LittleEndian.Uint32(b[7:])
				cmd.File = string(b[11:])
			}
			p.mu.Lock()
			p.Commands = append(p.Commands, cmd)
			p.mu.Unlock()
			p.dump(c, cmd)
			return
		case 0x01:
			p.mu.Lock()
			p.Commands = append(p.Commands, cmd)
			p.mu.Unlock()
			c.Close()
			peerGone()
			return
		default:
			p.mu.Lock()
			p.Commands = append(p.Commands, cmd)
			p.mu.Unlock()
			writePacket(c, 1, okPacket)
		}
	}
}

func (p *ConnPlan) dump(c net.Conn, req Command) {
	go p.drain(c)
	var steps []Step
	if p.OnDump != nil {
		steps = p.OnDump(req)
	}
	seq := byte(1)
	closed := false
	for i := range steps {
		s := &steps[i]
		if p.Gate != nil && !p.Gate(i, s) {
			break
		}
		select {
		case <-p.PeerClosed:
			// nobody is listening any more
			closed = true
		case <-p.release:
			closed = true
		default:
		}
		if closed {
			break
		}
		var err error
		atomic.AddInt32(&p.started, 1)
		if s.Raw != nil {
			_, err = c.Write(s.Raw)
		} else if s.Short > 0 {
			n := s.Short - 1
			if n > len(s.Payload) {
				n = len(s.Payload)
			}
			hdr := []byte{byte(len(s.Payload)), byte(len(s.Payload) >> 8), byte(len(s.Payload) >> 16), seq}
			_, err = c.Write(append(hdr, s.Payload[:n]...))
			seq++
		} else {
			var np int
			np, err = writePackets(c, seq+byte(s.SeqSkew), s.Payload)
			seq += byte(np)
		}
		if err != nil {
			break
		}
		atomic.AddInt32(&p.written, 1)
		switch s.Then {
		case CloseFIN:
			p.closeConn(c)
			<-p.PeerClosed
			return
		case CloseRST:
			atomic.StoreInt32(&p.weClosed, 1)
			rst(c)
			<-p.PeerClosed
			return
		case Hold:
			select {
			case <-p.PeerClosed:
			case <-p.release:
			}
			p.closeConn(c)
			<-p.PeerClosed
			return
		}
	}
	// script exhausted: wait for the replica to close, or for the harness to release us
	select {
	case <-p.PeerClosed:
	case <-p.release:
	}
	p.closeConn(c)
	<-p.PeerClosed
}
