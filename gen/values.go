// Package gen holds the rapid generators shared by the checks.  Every random
// choice is drawn from rapid so that shrinking and replay work.
package gen

import (
	"fmt"
	"math"
	"strings"

	"pgregory.net/rapid"

	"verif/hist"
	"verif/refenc"
)

// Limits bounds generated sizes; the thorough tier uses larger ones.
type Limits struct {
	MaxBlob   int  // cap on generated string / blob lengths
	MaxJSONKB int  // cap on large-format padding
	SmallJSON bool // no >= 64 KiB documents (format bit forcing is still used)
	Constants bool // every second value is the zero / empty / null value of its type
}

// Quick and Thorough limits.
var (
	Quick    = Limits{MaxBlob: 70000, MaxJSONKB: 70}
	Thorough = Limits{MaxBlob: 70000, MaxJSONKB: 140}
)

// EmittedTypes are the (type, real type) pairs a 5.6-8.0 master writes into
// table maps.
var EmittedTypes = []struct{ T, Real byte }{
	{refenc.TTiny, 0}, {refenc.TShort, 0}, {refenc.TInt24, 0}, {refenc.TLong, 0}, {refenc.TLongLong, 0},
	{refenc.TFloat, 0}, {refenc.TDouble, 0}, {refenc.TYear, 0},
	{refenc.TDate, 0}, {refenc.TTime, 0}, {refenc.TDateTime, 0}, {refenc.TTimestamp, 0},
	{refenc.TTimestamp2, 0}, {refenc.TDateTime2, 0}, {refenc.TTime2, 0},
	{refenc.TVarchar, 0}, {refenc.TBit, 0}, {refenc.TNewDecimal, 0}, {refenc.TBlob, 0},
	{refenc.TJSON, 0}, {refenc.TGeometry, 0},
	{refenc.TString, refenc.TString}, {refenc.TString, refenc.TEnum}, {refenc.TString, refenc.TSet},
}

// ExtraTypes are type codes no 5.6+ master logs but which the repository's own
// tests pin as supported by the cell decoder; used only in direct decoder checks.
var ExtraTypes = []struct{ T, Real byte }{
	{refenc.TNewDate, 0}, {refenc.TEnum, 0}, {refenc.TSet, 0}, {refenc.TTinyBlob, 0},
	{refenc.TMediumBlob, 0}, {refenc.TLongBlob, 0}, {refenc.TVarString, 0},
}

// ColumnOpt tunes Column.
type ColumnOpt struct {
	Extra   bool // include the documented-extra stratum
	NoJSON  bool
	NoHeavy bool // keep declared lengths small-ish (end-to-end histories with many rows)
	Only    []byte
}

func boundaryOr(t *rapid.T, label string, lo, hi int, bounds ...int) int {
	var ok []int
	for _, b := range bounds {
		if b >= lo && b <= hi {
			ok = append(ok, b)
		}
	}
	if len(ok) > 0 && rapid.IntRange(0, 2).Draw(t, label+"_b") == 0 {
		return rapid.SampledFrom(ok).Draw(t, label)
	}
	return rapid.IntRange(lo, hi).Draw(t, label)
}

// Name draws an identifier of 1..max bytes.
func Name(t *rapid.T, label string, max int) string {
	n := boundaryOr(t, label+"_len", 1, max, 1, 64, max)
	k := rapid.IntRange(0, 3).Draw(t, label+"_k")
	switch k {
	case 0:
		return strings.Repeat("a", n)
	case 1:
		b := refenc.Blob{K: 5, S: rapid.Uint32().Draw(t, label+"_s"), N: n}.Bytes()
		s := strings.ReplaceAll(string(b), "\x00", "x")
		return s
	default:
		b := refenc.Blob{K: 7, S: rapid.Uint32().Draw(t, label+"_s"), N: n}.Bytes()
		return string(b)
	}
}

// ColumnOf draws the parameters of a column with the given (type, real).
func ColumnOf(t *rapid.T, typ, real byte, opt ColumnOpt) hist.Column {
	c := hist.Column{Type: typ}
	switch typ {
	case refenc.TTimestamp2, refenc.TDateTime2, refenc.TTime2:
		c.Fsp = rapid.IntRange(0, 6).Draw(t, "fsp")
	case refenc.TVarchar, refenc.TVarString:
		if opt.NoHeavy {
			c.Len = boundaryOr(t, "varlen", 0, 65535, 0, 1, 255, 256, 65535)
		} else {
			c.Len = boundaryOr(t, "varlen", 0, 65535, 0, 1, 254, 255, 256, 257, 65535)
		}
	case refenc.TBit:
		c.Len = boundaryOr(t, "nbits", 1, 64, 1, 7, 8, 9, 63, 64)
	case refenc.TNewDecimal:
		c.P = boundaryOr(t, "prec", 1, 65, 1, 9, 10, 18, 65)
		max := 30
		if c.P < max {
			max = c.P
		}
		c.S = boundaryOr(t, "scale", 0, max, 0, 9, max)
	case refenc.TBlob:
		c.Len = rapid.IntRange(1, 4).Draw(t, "lenbytes")
	case refenc.TTinyBlob:
		c.Len = 1
	case refenc.TMediumBlob:
		c.Len = 3
	case refenc.TLongBlob:
		c.Len = 4
	case refenc.TJSON, refenc.TGeometry:
		c.Len = 4
	case refenc.TString:
		c.Real = real
		switch real {
		case refenc.TEnum:
			c.Len = rapid.IntRange(1, 2).Draw(t, "enumlen")
		case refenc.TSet:
			c.Len = rapid.IntRange(1, 8).Draw(t, "setlen")
		default:
			c.Real = refenc.TString
			c.Len = boundaryOr(t, "charlen", 0, 1023, 0, 1, 255, 256, 511, 512, 767, 768, 1023)
		}
	case refenc.TEnum:
		c.Len = rapid.IntRange(1, 2).Draw(t, "enumlen")
	case refenc.TSet:
		c.Len = rapid.IntRange(1, 8).Draw(t, "setlen")
	}
	if hist.IntWidth(typ) > 0 || typ == refenc.TFloat || typ == refenc.TDouble || typ == refenc.TNewDecimal {
		c.Unsigned = rapid.Bool().Draw(t, "unsigned")
	}
	c.Nullable = rapid.Bool().Draw(t, "nullable")
	return c
}

// Column draws a column (without name).
func Column(t *rapid.T, opt ColumnOpt) hist.Column {
	types := EmittedTypes
	if opt.Extra {
		types = append(append([]struct{ T, Real byte }{}, EmittedTypes...), ExtraTypes...)
	}
	if len(opt.Only) > 0 || opt.NoJSON {
		var f []struct{ T, Real byte }
		for _, x := range types {
			if opt.NoJSON && x.T == refenc.TJSON {
				continue
			}
			if len(opt.Only) > 0 {
				ok := false
				for _, o := range opt.Only {
					ok = ok || o == x.T
				}
				if !ok {
					continue
				}
			}
			f = append(f, x)
		}
		types = f
	}
	x := rapid.SampledFrom(types).Draw(t, "type")
	return ColumnOf(t, x.T, x.Real, opt)
}

// Bytes draws a byte string of exactly n bytes.
func Bytes(t *rapid.T, label string, n int) refenc.Blob {
	if n <= 12 && rapid.Bool().Draw(t, label+"_lit") {
		return refenc.Lit(rapid.SliceOfN(rapid.Byte(), n, n).Draw(t, label))
	}
	return refenc.Blob{K: rapid.IntRange(1, 7).Draw(t, label+"_k"), S: rapid.Uint32().Draw(t, label+"_s"), N: n}
}

// lengthUpTo draws an actual length <= max (and <= limit), favouring the
// boundaries that change the width of a length prefix.
func lengthUpTo(t *rapid.T, label string, max, limit int) int {
	if max > limit {
		max = limit
	}
	switch rapid.IntRange(0, 5).Draw(t, label+"_c") {
	case 0:
		return 0
	case 1:
		return boundaryOr(t, label, 0, max, 1, 255, 256, max)
	case 2:
		return max
	default:
		small := max
		if small > 40 {
			small = 40
		}
		return rapid.IntRange(0, small).Draw(t, label)
	}
}

// IntBits draws the bit pattern of a w-byte integer.
func IntBits(t *rapid.T, w int) uint64 {
	bits := uint(8 * w)
	mask := uint64(math.MaxUint64)
	if bits < 64 {
		mask = 1<<bits - 1
	}
	if rapid.IntRange(0, 1).Draw(t, "int_b") == 0 {
		cands := []uint64{0, 1, 2, mask, mask - 1, 1 << (bits - 1), 1<<(bits-1) - 1, 1<<(bits-1) + 1, 127, 128, 255, 256, 32767, 32768, 65535, 65536, 1<<23 - 1, 1 << 23, 1<<24 - 1, 1 << 24, 1<<31 - 1, 1 << 31, 1<<32 - 1, 1 << 32}
		return rapid.SampledFrom(cands).Draw(t, "int") & mask
	}
	return rapid.Uint64().Draw(t, "int") & mask
}

// Float32Bits draws a finite float32 bit pattern.
func Float32Bits(t *rapid.T) uint32 {
	switch rapid.IntRange(0, 5).Draw(t, "f32_c") {
	case 0:
		return rapid.SampledFrom([]uint32{0, 0x80000000, 1, 0x80000001, 0x007fffff, 0x00800000, 0x7f7fffff, 0xff7fffff,
			math.Float32bits(1), math.Float32bits(-1), math.Float32bits(0.1), math.Float32bits(1e10), math.Float32bits(1e-10),
			math.Float32bits(3.4e38), math.Float32bits(16777216), math.Float32bits(16777217), math.Float32bits(0.5)}).Draw(t, "f32")
	case 1:
		e := rapid.IntRange(-149, 127).Draw(t, "f32_e")
		return math.Float32bits(float32(math.Ldexp(1, e)))
	case 2:
		e := rapid.IntRange(-45, 38).Draw(t, "f32_e10")
		return math.Float32bits(float32(math.Pow10(e)))
	case 3: // subnormal
		return rapid.Uint32Range(1, 0x007fffff).Draw(t, "f32") | uint32(rapid.IntRange(0, 1).Draw(t, "f32_s"))<<31
	default:
		for {
			b := rapid.Uint32().Draw(t, "f32")
			if b&0x7f800000 != 0x7f800000 {
				return b
			}
			// NaN / Inf are not storable in MySQL: remap the exponent
			return b &^ 0x00800000
		}
	}
}

// Float64Bits draws a finite float64 bit pattern.
func Float64Bits(t *rapid.T) uint64 {
	switch rapid.IntRange(0, 5).Draw(t, "f64_c") {
	case 0:
		return rapid.SampledFrom([]uint64{0, 1 << 63, 1, 1<<63 | 1, 0x000fffffffffffff, 0x0010000000000000, 0x7fefffffffffffff, 0xffefffffffffffff,
			math.Float64bits(1), math.Float64bits(-1), math.Float64bits(0.1), math.Float64bits(1e100), math.Float64bits(1e-100),
			math.Float64bits(1.7976931348623157e308), math.Float64bits(9007199254740992), math.Float64bits(9007199254740993), math.Float64bits(3.14159)}).Draw(t, "f64")
	case 1:
		e := rapid.IntRange(-1074, 1023).Draw(t, "f64_e")
		return math.Float64bits(math.Ldexp(1, e))
	case 2:
		e := rapid.IntRange(-323, 308).Draw(t, "f64_e10")
		return math.Float64bits(math.Pow10(e))
	case 3:
		return rapid.Uint64Range(1, 0x000fffffffffffff).Draw(t, "f64") | uint64(rapid.IntRange(0, 1).Draw(t, "f64_s"))<<63
	default:
		b := rapid.Uint64().Draw(t, "f64")
		if b&0x7ff0000000000000 == 0x7ff0000000000000 {
			b &^= 0x0010000000000000
		}
		return b
	}
}

// DecimalDigits draws a digit string of length p in one of the pattern classes
// of the design (all zeros, single low digit, one 9-digit group non-zero, all
// nines, random).
func DecimalDigits(t *rapid.T, p, s int) string {
	b := []byte(strings.Repeat("0", p))
	switch rapid.IntRange(0, 6).Draw(t, "dec_c") {
	case 0: // zero
	case 1: // single low digit somewhere
		i := rapid.IntRange(0, p-1).Draw(t, "dec_i")
		b[i] = byte('0' + rapid.IntRange(1, 9).Draw(t, "dec_d"))
	case 2: // all nines
		for i := range b {
			b[i] = '9'
		}
	case 3: // one 9-digit group (aligned to the decimal point) non-zero, rest zero
		intg := p - s
		// group boundaries relative to the decimal point
		var starts []int
		for e := intg; e > 0; e -= 9 {
			st := e - 9
			if st < 0 {
				st = 0
			}
			starts = append(starts, st)
		}
		for st := intg; st < p; st += 9 {
			starts = append(starts, st)
		}
		st := rapid.SampledFrom(starts).Draw(t, "dec_g")
		for i := st; i < st+9 && i < p; i++ {
			if st < intg && i >= intg {
				break
			}
			b[i] = byte('0' + rapid.IntRange(0, 9).Draw(t, "dec_d"))
		}
	case 4: // small integer part value (1..99) to exercise leading-zero stripping
		intg := p - s
		if intg > 0 {
			b[intg-1] = byte('0' + rapid.IntRange(0, 9).Draw(t, "dec_d"))
			if intg > 1 {
				b[intg-2] = byte('0' + rapid.IntRange(0, 9).Draw(t, "dec_d2"))
			}
		}
		for i := intg; i < p; i++ {
			b[i] = byte('0' + rapid.IntRange(0, 9).Draw(t, "dec_f"))
		}
	default:
		for i := range b {
			b[i] = byte('0' + rapid.IntRange(0, 9).Draw(t, "dec_d"))
		}
	}
	return string(b)
}

func usecFor(t *rapid.T, fsp int) int {
	if fsp == 0 {
		return 0
	}
	unit := 1
	for i := fsp; i < 6; i++ {
		unit *= 10
	}
	maxk := 1000000/unit - 1
	k := boundaryOr(t, "usec", 0, maxk, 0, 1, 5, 9, 10, maxk)
	return k * unit
}

// ValueOf draws a non-NULL logical value for column c.
func ValueOf(t *rapid.T, c hist.Column, lim Limits) hist.Value {
	var v hist.Value
	if lim.Constants && rapid.Bool().Draw(t, "constant") {
		// the value whose text a decoder is most tempted to share between cells: zero, empty, the zero date
		switch c.Type {
		case refenc.TBit:
			v.B = refenc.Lit(make([]byte, (c.Len+7)/8))
		case refenc.TNewDecimal:
			v.Dig = strings.Repeat("0", c.P)
		case refenc.TJSON:
			v.J = rapid.SampledFrom([]*refenc.JNode{{K: refenc.JNull, Empty: true}, {K: refenc.JNull}, {K: refenc.JTrue}, {K: refenc.JFalse}, {K: refenc.JArray}, {K: refenc.JObject},
				{K: refenc.JInt}, {K: refenc.JString}}).Draw(t, "constant_json")
		}
		return v
	}
	switch c.Type {
	case refenc.TTiny, refenc.TShort, refenc.TInt24, refenc.TLong, refenc.TLongLong:
		v.U = IntBits(t, hist.IntWidth(c.Type))
	case refenc.TFloat:
		v.U = uint64(Float32Bits(t))
	case refenc.TDouble:
		v.U = Float64Bits(t)
	case refenc.TYear:
		v.U = uint64(boundaryOr(t, "year", 0, 255, 0, 1, 70, 255))
	case refenc.TDate, refenc.TNewDate:
		if rapid.IntRange(0, 5).Draw(t, "date_zero") == 0 {
			break
		}
		v.Y = boundaryOr(t, "y", 0, 9999, 0, 1, 999, 1000, 1970, 2038, 9999)
		v.Mo = boundaryOr(t, "mo", 0, 12, 0, 1, 12)
		v.D = boundaryOr(t, "d", 0, 31, 0, 1, 31)
	case refenc.TTime, refenc.TTime2:
		v.H = boundaryOr(t, "h", 0, 838, 0, 1, 9, 10, 23, 24, 99, 100, 838)
		v.Mi = boundaryOr(t, "mi", 0, 59, 0, 1, 59)
		v.S = boundaryOr(t, "s", 0, 59, 0, 1, 59)
		if c.Type == refenc.TTime2 {
			v.Us = usecFor(t, c.Fsp)
		}
		v.Neg = rapid.Bool().Draw(t, "neg")
		if v.H == 0 && v.Mi == 0 && v.S == 0 && v.Us == 0 {
			v.Neg = false // there is no negative zero
		}
	case refenc.TDateTime, refenc.TDateTime2:
		if rapid.IntRange(0, 7).Draw(t, "dt_zero") != 0 {
			v.Y = boundaryOr(t, "y", 0, 9999, 0, 1, 999, 1000, 1970, 2038, 9999)
			v.Mo = boundaryOr(t, "mo", 0, 12, 0, 1, 12)
			v.D = boundaryOr(t, "d", 0, 31, 0, 1, 31)
			v.H = boundaryOr(t, "h", 0, 23, 0, 1, 23)
			v.Mi = boundaryOr(t, "mi", 0, 59, 0, 1, 59)
			v.S = boundaryOr(t, "s", 0, 59, 0, 1, 59)
		}
		if c.Type == refenc.TDateTime2 {
			v.Us = usecFor(t, c.Fsp)
		}
	case refenc.TTimestamp, refenc.TTimestamp2:
		switch rapid.IntRange(0, 3).Draw(t, "ts_c") {
		case 0:
			v.U = 0
		case 1:
			v.U = uint64(rapid.SampledFrom([]uint32{1, 86399, 86400, 1<<31 - 1, 1 << 31, 1<<32 - 1, 951782400, 1583020800, 1603589400, 1616893200, 1635642000}).Draw(t, "ts"))
		default:
			v.U = uint64(rapid.Uint32Range(1, math.MaxUint32).Draw(t, "ts"))
		}
		if c.Type == refenc.TTimestamp2 && v.U != 0 {
			v.Us = usecFor(t, c.Fsp)
		}
	case refenc.TVarchar, refenc.TVarString:
		v.B = Bytes(t, "str", lengthUpTo(t, "strlen", c.Len, lim.MaxBlob))
	case refenc.TBit:
		n := (c.Len + 7) / 8
		b := rapid.SliceOfN(rapid.Byte(), n, n).Draw(t, "bit")
		if c.Len%8 != 0 {
			b[0] &= 1<<uint(c.Len%8) - 1
		}
		v.B = refenc.Lit(b)
	case refenc.TNewDecimal:
		v.Dig = DecimalDigits(t, c.P, c.S)
		v.Neg = rapid.Bool().Draw(t, "neg")
		if strings.Trim(v.Dig, "0") == "" {
			v.Neg = false
		}
	case refenc.TBlob, refenc.TTinyBlob, refenc.TMediumBlob, refenc.TLongBlob, refenc.TGeometry:
		max := lim.MaxBlob
		if c.Len < 3 {
			max = 1<<(8*uint(c.Len)) - 1
		}
		v.B = Bytes(t, "blob", lengthUpTo(t, "bloblen", max, lim.MaxBlob))
	case refenc.TJSON:
		v.J = JSONDoc(t, lim)
	case refenc.TString:
		switch c.Real {
		case refenc.TEnum, refenc.TSet:
			v.U = IntBits(t, c.Len)
		default:
			v.B = Bytes(t, "chr", lengthUpTo(t, "chrlen", c.Len, lim.MaxBlob))
		}
	case refenc.TEnum, refenc.TSet:
		v.U = IntBits(t, c.Len)
	default:
		panic(fmt.Sprintf("gen: ValueOf: unsupported type %d", c.Type))
	}
	return v
}
