package gen

import (
	"fmt"
	"math"
	"strings"

	"pgregory.net/rapid"

	"verif/refenc"
)

// quoteFree draws a string of n bytes without ' and " characters.
func quoteFree(t *rapid.T, label string, n int) refenc.Blob {
	if n <= 8 && rapid.Bool().Draw(t, label+"_lit") {
		const al = "abcxyzABC019 _-.,:()[]{}\\/<>&é中"
		rs := []rune(al)
		var sb strings.Builder
		for sb.Len() < n {
			r := rs[rapid.IntRange(0, len(rs)-1).Draw(t, label+"_r")]
			if sb.Len()+len(string(r)) > n {
				r = 'q'
			}
			sb.WriteRune(r)
		}
		return refenc.Lit([]byte(sb.String()))
	}
	k := 7
	if rapid.IntRange(0, 3).Draw(t, label+"_u") == 0 {
		k = 5
	}
	return refenc.Blob{K: k, S: rapid.Uint32().Draw(t, label+"_s"), N: n}
}

func jsonScalar(t *rapid.T, lim Limits) *refenc.JNode {
	n := &refenc.JNode{}
	switch rapid.IntRange(0, 12).Draw(t, "jk") {
	case 0:
		n.K = refenc.JNull
	case 1:
		n.K = refenc.JTrue
	case 2:
		n.K = refenc.JFalse
	case 3, 4:
		n.K = refenc.JInt
		if rapid.Bool().Draw(t, "ji_b") {
			n.I = rapid.SampledFrom([]int64{0, 1, -1, 127, 128, 255, 256, 32767, 32768, -32768, -32769, 65535, 65536,
				2147483647, 2147483648, -2147483648, -2147483649, 4294967295, 4294967296, math.MaxInt64, math.MinInt64}).Draw(t, "ji")
		} else {
			n.I = rapid.Int64().Draw(t, "ji")
		}
	case 5:
		n.K = refenc.JUint
		if rapid.Bool().Draw(t, "ju_b") {
			n.U = rapid.SampledFrom([]uint64{0, 1, 32767, 32768, 65535, 65536, 2147483647, 2147483648, 4294967295, 4294967296,
				math.MaxInt64, math.MaxInt64 + 1, math.MaxUint64}).Draw(t, "ju")
		} else {
			n.U = rapid.Uint64().Draw(t, "ju")
		}
	case 6:
		n.K = refenc.JDouble
		n.U = Float64Bits(t)
	case 7, 8:
		n.K = refenc.JString
		ln := 0
		switch rapid.IntRange(0, 9).Draw(t, "js_c") {
		case 0:
			ln = 0
		case 1:
			ln = rapid.SampledFrom([]int{127, 128, 129, 16383, 16384, 16385}).Draw(t, "js_len")
		case 2:
			if lim.MaxBlob >= 70000 && !lim.SmallJSON && rapid.IntRange(0, 3).Draw(t, "js_big") == 0 {
				ln = rapid.IntRange(65530, 70000).Draw(t, "js_len")
			} else {
				ln = rapid.IntRange(0, 300).Draw(t, "js_len")
			}
		default:
			ln = rapid.IntRange(0, 24).Draw(t, "js_len")
		}
		n.S = quoteFree(t, "js", ln)
	case 9:
		n.K = refenc.JDate
		n.Y = boundaryOr(t, "y", 0, 9999, 0, 1000, 2015, 9999)
		n.Mo = boundaryOr(t, "mo", 0, 12, 0, 1, 12)
		n.D = boundaryOr(t, "d", 0, 31, 0, 1, 31)
	case 10:
		n.K = refenc.JTime
		n.H = boundaryOr(t, "h", 0, 838, 0, 1, 23, 24, 100, 838)
		n.Mi = boundaryOr(t, "mi", 0, 59, 0, 59)
		n.Sec = boundaryOr(t, "s", 0, 59, 0, 59)
		if rapid.Bool().Draw(t, "us_nz") {
			n.Us = boundaryOr(t, "us", 0, 999999, 1, 120000, 999999)
		}
		n.Neg = rapid.Bool().Draw(t, "neg")
		if n.H == 0 && n.Mi == 0 && n.Sec == 0 && n.Us == 0 {
			n.Neg = false
		}
	case 11:
		n.K = refenc.JDateTime
		n.Y = boundaryOr(t, "y", 0, 9999, 0, 1000, 2015, 9999)
		n.Mo = boundaryOr(t, "mo", 0, 12, 0, 1, 12)
		n.D = boundaryOr(t, "d", 0, 31, 0, 1, 31)
		n.H = boundaryOr(t, "h", 0, 23, 0, 23)
		n.Mi = boundaryOr(t, "mi", 0, 59, 0, 59)
		n.Sec = boundaryOr(t, "s", 0, 59, 0, 59)
		if rapid.Bool().Draw(t, "us_nz") {
			n.Us = boundaryOr(t, "us", 0, 999999, 1, 120000, 999999)
		}
	default:
		n.K = refenc.JDecimal
		n.P = boundaryOr(t, "prec", 1, 65, 1, 9, 10, 13, 65)
		max := 30
		if n.P < max {
			max = n.P
		}
		n.Sc = boundaryOr(t, "scale", 0, max, 0, 4, max)
		n.Digits = DecimalDigits(t, n.P, n.Sc)
		n.Neg = rapid.Bool().Draw(t, "neg")
		if strings.Trim(n.Digits, "0") == "" {
			n.Neg = false
		}
	}
	return n
}

func jsonNode(t *rapid.T, depth int, budget *int, lim Limits) *refenc.JNode {
	*budget--
	containerOdds := 3 // 1 in 3 below the root
	if depth == 0 {
		containerOdds = 1 // root: 2 in 3 containers
	}
	isContainer := depth < 6 && *budget > 0 && rapid.IntRange(0, containerOdds+1).Draw(t, "jc") <= 1
	if !isContainer {
		return jsonScalar(t, lim)
	}
	n := &refenc.JNode{K: refenc.JArray}
	if rapid.Bool().Draw(t, "jobj") {
		n.K = refenc.JObject
	}
	fan := 0
	switch rapid.IntRange(0, 9).Draw(t, "jfan_c") {
	case 0:
		fan = 0
	case 1:
		fan = rapid.IntRange(10, 40).Draw(t, "jfan")
	default:
		fan = rapid.IntRange(1, 6).Draw(t, "jfan")
	}
	if fan > *budget {
		fan = *budget
	}
	if fan < 0 {
		fan = 0
	}
	seen := map[string]bool{}
	for i := 0; i < fan; i++ {
		if n.K == refenc.JObject {
			var k string
			for try := 0; ; try++ {
				kl := rapid.IntRange(0, 12).Draw(t, "jkey_len")
				if rapid.IntRange(0, 30).Draw(t, "jkey_long") == 0 {
					kl = rapid.IntRange(100, 400).Draw(t, "jkey_len2")
				}
				k = string(quoteFree(t, "jkey", kl).Bytes())
				if !seen[k] {
					break
				}
				if try > 3 {
					k = fmt.Sprintf("%s#%d", k, i)
					if !seen[k] {
						break
					}
				}
			}
			seen[k] = true
			n.Keys = append(n.Keys, k)
		}
		n.Kids = append(n.Kids, jsonNode(t, depth+1, budget, lim))
	}
	if n.K == refenc.JObject {
		refenc.SortKeys(n.Keys, n.Kids)
	}
	return n
}

// jsonWide draws a container with hundreds to thousands of scalar members taken from a few drawn
// templates (their text is much longer than their binary form for opaque temporals and decimals),
// optionally below one or two enclosing containers.
func jsonWide(t *rapid.T, lim Limits) *refenc.JNode {
	nt := rapid.IntRange(1, 3).Draw(t, "jwide_templates")
	var tpl []*refenc.JNode
	for i := 0; i < nt; i++ {
		s := jsonScalar(t, lim)
		if s.K == refenc.JString && s.S.N > 64 {
			s.S.N = 64
		}
		tpl = append(tpl, s)
	}
	// 6000 and more members: the two entry tables of an object alone are longer than 64 KiB, so every key
	// offset needs more than 16 bits
	sizes := []int{90, 130, 300, 700, 1500, 3000, 6000, 7300}
	if lim.SmallJSON {
		sizes = []int{90, 130, 300}
	}
	n := rapid.SampledFrom(sizes).Draw(t, "jwide_n")
	c := &refenc.JNode{K: refenc.JArray}
	if rapid.IntRange(0, 2).Draw(t, "jwide_obj") == 0 {
		c.K = refenc.JObject
	}
	keyPad := ""
	if c.K == refenc.JObject && !lim.SmallJSON && rapid.IntRange(0, 3).Draw(t, "jwide_long_keys") == 0 {
		// few members with keys of about 2 KB each: the keys themselves push later keys beyond 64 KiB
		n = rapid.SampledFrom([]int{36, 40, 64}).Draw(t, "jwide_long_keys_n")
		keyPad = strings.Repeat("K", rapid.IntRange(1700, 2100).Draw(t, "jwide_key_len"))
	}
	for i := 0; i < n; i++ {
		c.Kids = append(c.Kids, tpl[i%nt])
		if c.K == refenc.JObject {
			c.Keys = append(c.Keys, fmt.Sprintf("k%04d%s", i, keyPad))
		}
	}
	if c.K == refenc.JObject {
		refenc.SortKeys(c.Keys, c.Kids)
	}
	for d := rapid.IntRange(0, 2).Draw(t, "jwide_depth"); d > 0; d-- {
		if rapid.Bool().Draw(t, "jwide_wrap_obj") {
			c = &refenc.JNode{K: refenc.JObject, Keys: []string{"w"}, Kids: []*refenc.JNode{c}}
		} else {
			c = &refenc.JNode{K: refenc.JArray, Kids: []*refenc.JNode{c}}
		}
	}
	return c
}

// JSONDoc draws a JSON document (depth <= 6, fan-out <= 40, <= ~150 nodes).  A
// fraction of container roots is pushed into the large storage format, either
// by a >= 64 KiB child or by forcing the format bit.
func JSONDoc(t *rapid.T, lim Limits) *refenc.JNode {
	if rapid.IntRange(0, 19).Draw(t, "jwide") == 0 {
		return jsonWide(t, lim)
	}
	if rapid.IntRange(0, 24).Draw(t, "jempty") == 0 {
		return &refenc.JNode{K: refenc.JNull, Empty: true} // a zero-length value: the null literal
	}
	budget := rapid.IntRange(1, 150).Draw(t, "jbudget")
	root := jsonNode(t, 0, &budget, lim)
	if root.K == refenc.JObject || root.K == refenc.JArray {
		jl := rapid.IntRange(0, 9).Draw(t, "jlarge")
		if lim.SmallJSON && jl == 0 {
			jl = 1
		}
		switch jl {
		case 0: // padded past 64 KiB
			pad := &refenc.JNode{K: refenc.JString, S: refenc.Blob{K: 7, S: rapid.Uint32().Draw(t, "jpad_s"),
				N: rapid.IntRange(65536, lim.MaxJSONKB*1024).Draw(t, "jpad_n")}}
			at := rapid.IntRange(0, len(root.Kids)).Draw(t, "jpad_at")
			root.Kids = append(root.Kids[:at], append([]*refenc.JNode{pad}, root.Kids[at:]...)...)
			if root.K == refenc.JObject {
				k := "pad"
				for i := 0; ; i++ {
					dup := false
					for _, x := range root.Keys {
						dup = dup || x == k
					}
					if !dup {
						break
					}
					k = fmt.Sprintf("pad%d", i)
				}
				root.Keys = append(root.Keys[:at], append([]string{k}, root.Keys[at:]...)...)
				refenc.SortKeys(root.Keys, root.Kids)
			}
		case 1: // format bit forced on the root and on some nested containers
			root.Large = true
			var mark func(n *refenc.JNode)
			mark = func(n *refenc.JNode) {
				for _, k := range n.Kids {
					if (k.K == refenc.JObject || k.K == refenc.JArray) && rapid.Bool().Draw(t, "jlarge_kid") {
						k.Large = true
						mark(k)
					}
				}
			}
			mark(root)
		}
	}
	return root
}
