package gen

import (
	"strconv"
	"fmt"
	"strings"

	"pgregory.net/rapid"

	"verif/hist"
	"verif/refenc"
)

// HistOpt bounds the history generator.
type HistOpt struct {
	MaxUnits   int // commit-point units
	MaxItems   int // items per transaction
	MaxRowsEv  int // rows events per statement
	MaxRows    int // rows per rows event
	MaxTables  int
	MaxCols    int
	Rotations  int  // max rotations
	BigBase    bool // allow first-file offsets near 2^31 / 2^32
	Ignorables bool // sprinkle ignorable units / items
	Kinds      []hist.UnitKind
	Col        ColumnOpt
	Lim        Limits
	FixedCfg   *hist.Cfg
	Scale      bool // occasionally produce long transactions (> 1024 rows events) and long histories (> 1024 events)
	ScaleTx    bool // long transactions only
	ScaleRows  bool // rows events with more than a thousand rows only
	ManyTables int  // if > 0: one history in ManyTables has hundreds to thousands of tables (Scale implies 50)
	// scaleLeft, when set by History(), is the number of scale shapes one history may still use: the
	// shapes do not pile up in one history (which would only measure the harness's memory)
	scaleLeft *int
	// lastAfter, when set by History(), remembers per table the last full after image written: a later
	// UPDATE / DELETE of that table may carry it, byte for byte, as its before image (the history of one row)
	lastAfter map[int][]hist.Value
}

// DefaultHistOpt is the C01 shape.
func DefaultHistOpt(lim Limits, thorough bool) HistOpt {
	o := HistOpt{MaxUnits: 6, MaxItems: 4, MaxRowsEv: 3, MaxRows: 5, MaxTables: 4, MaxCols: 12, Rotations: 2, BigBase: true, Ignorables: true,
		Kinds: []hist.UnitKind{hist.UTxXID, hist.UTxXID, hist.UTxCommit, hist.UTxRollback, hist.UDDL, hist.UAutoRows, hist.UStmtDML}, Lim: lim, Scale: true}
	if thorough {
		o.MaxUnits = 20
		o.MaxTables = 8
	}
	return o
}

// Casing returns word in a drawn letter casing.
func Casing(t *rapid.T, word string) string {
	switch rapid.IntRange(0, 3).Draw(t, "case_k") {
	case 0:
		return strings.ToUpper(word)
	case 1:
		return strings.ToLower(word)
	case 2:
		return strings.ToUpper(word[:1]) + strings.ToLower(word[1:])
	}
	b := []byte(strings.ToLower(word))
	for i := range b {
		if rapid.Bool().Draw(t, "case_bit") {
			b[i] -= 'a' - 'A'
		}
	}
	return string(b)
}

// StatusVars draws a subset, in MySQL's emission order, of the query status
// variables other than Q_CHARSET_CODE, with correctly shaped payloads.
func StatusVars(t *rapid.T, all bool) []refenc.StatusVar {
	var out []refenc.StatusVar
	rb := func(n int) []byte { return rapid.SliceOfN(rapid.Byte(), n, n).Draw(t, "sv_payload") }
	str := func(max, full int) []byte {
		// mostly short; one in six at the longest value the master can write (the whole block then
		// reaches the sizes of MAX_SIZE_LOG_EVENT_STATUS of 5.7 / 8.0, a few KB)
		n := rapid.IntRange(0, max).Draw(t, "sv_strlen")
		if all && rapid.IntRange(0, 5).Draw(t, "sv_strfull") == 0 {
			n = full
		}
		b := refenc.Blob{K: 7, S: rapid.Uint32().Draw(t, "sv_s"), N: n}.Bytes()
		for i := range b {
			if b[i] == 0 {
				b[i] = 'z'
			}
		}
		return b
	}
	for _, code := range refenc.StatusVarOrder {
		if code == 4 {
			continue
		}
		if !all && code > 5 {
			break
		}
		if !rapid.Bool().Draw(t, fmt.Sprintf("sv_%d", code)) {
			continue
		}
		var p []byte
		switch code {
		case 0:
			p = rb(4)
		case 1:
			p = rb(8)
		case 6, 5:
			s := str(40, 255)
			p = append([]byte{byte(len(s))}, s...)
			if code == 6 && all && rapid.IntRange(0, 7).Draw(t, "sv_old_catalog") == 0 {
				// the catalog in the form of 5.0.0 - 5.0.3 masters (Q_CATALOG_CODE = 2): the same
				// length-prefixed string followed by a NUL that the length does not count
				code = 2
				p = append(p, 0)
			}
		case 3:
			p = rb(4)
		case 7, 8, 18:
			p = rb(2)
		case 9, 17:
			p = rb(8)
		case 10:
			p = rb(4)
		case 11:
			u, h := str(20, 96), str(20, 255)
			p = append(append([]byte{byte(len(u))}, u...), append([]byte{byte(len(h))}, h...)...)
		case 12:
			if rapid.IntRange(0, 3).Draw(t, "sv_ndb_over") == 0 {
				// more than MAX_DBS_IN_EVENT_MTS databases: the count byte is 254 and NO names follow
				p = []byte{254}
				break
			}
			n := rapid.IntRange(0, 3).Draw(t, "sv_ndb")
			if rapid.IntRange(0, 5).Draw(t, "sv_ndb_max") == 0 {
				n = 16
			}
			p = []byte{byte(n)}
			for i := 0; i < n; i++ {
				p = append(append(p, str(10, 192)...), 0)
			}
		case 13:
			p = rb(3)
		case 16, 19, 20:
			p = rb(1)
		}
		out = append(out, refenc.StatusVar{Code: code, Payload: p})
	}
	return out
}

type clock struct{ now uint32 }

// Clock is the exported face of the timestamp source used by RowsEvent.
type Clock = clock

// NewClock starts a clock.
func NewClock() *Clock { return &clock{now: 1000} }

func (c *clock) tick(t *rapid.T) uint32 {
	c.now += uint32(rapid.IntRange(0, 3).Draw(t, "tick"))
	return c.now
}

func query(t *rapid.T, ck *clock, db, sql string) *hist.Query {
	q := &hist.Query{DB: db, SQL: sql, TS: ck.tick(t)}
	if rapid.Bool().Draw(t, "q_charset") {
		q.Charset = &[3]uint16{uint16(boundaryOr(t, "cs_client", 0, 65535, 8, 33, 45, 255, 65535)), uint16(boundaryOr(t, "cs_conn", 0, 65535, 8, 33, 45, 255, 65535)), uint16(boundaryOr(t, "cs_server", 0, 65535, 8, 33, 45, 255, 65535))}
	}
	if rapid.IntRange(0, 2).Draw(t, "q_vars") == 0 {
		q.Vars = StatusVars(t, false)
	}
	if rapid.IntRange(0, 3).Draw(t, "q_posthdr") == 0 {
		q.Thread = rapid.Uint32().Draw(t, "q_thread")
		q.Exec = rapid.SampledFrom([]uint32{0, 1, 3600, 1<<31 - 1, 1<<32 - 1}).Draw(t, "q_exec")
	}
	switch strings.ToLower(sql) {
	case "begin", "commit", "rollback":
	default:
		// a statement that failed half way on the master is logged with the error it ended with
		// (DROP TABLE t1, t_missing: 1051); it is part of the binlog like any other
		if rapid.IntRange(0, 7).Draw(t, "q_errcode") == 0 {
			q.ErrCode = rapid.SampledFrom([]uint16{1051, 1062, 1146, 1317, 1, 65535}).Draw(t, "q_err")
		}
	}
	return q
}

// Presence draws a presence bitmap with at least one present column.
func Presence(t *rapid.T, n int) []bool {
	p := make([]bool, n)
	switch rapid.IntRange(0, 3).Draw(t, "pres_k") {
	case 0, 1: // full image
		for i := range p {
			p[i] = true
		}
	case 2: // key-only: the first k columns
		k := rapid.IntRange(1, n).Draw(t, "pres_key")
		for i := 0; i < k; i++ {
			p[i] = true
		}
	default:
		any := false
		for i := range p {
			p[i] = rapid.Bool().Draw(t, "pres_bit")
			any = any || p[i]
		}
		if !any {
			p[rapid.IntRange(0, n-1).Draw(t, "pres_one")] = true
		}
	}
	return p
}

func rowValues(t *rapid.T, tbl *hist.Table, present []bool, lim Limits) []hist.Value {
	vals := make([]hist.Value, len(tbl.Cols))
	for c, col := range tbl.Cols {
		if !present[c] {
			continue
		}
		if col.Nullable && rapid.IntRange(0, 4).Draw(t, "null") == 0 {
			vals[c] = hist.Value{Null: true}
			continue
		}
		vals[c] = ValueOf(t, col, lim)
	}
	return vals
}

// RowsEvent draws one rows event for a table.
func RowsEvent(t *rapid.T, tables []hist.Table, ti int, ck *clock, o HistOpt) hist.RowsEv {
	tbl := &tables[ti]
	r := hist.RowsEv{Table: ti, Kind: rapid.IntRange(0, 2).Draw(t, "rows_kind"), TS: ck.tick(t)}
	r.Present1 = Presence(t, len(tbl.Cols))
	if r.Kind == 1 {
		r.Present2 = Presence(t, len(tbl.Cols))
	}
	n := rapid.IntRange(0, o.MaxRows).Draw(t, "nrows")
	if n == 0 && rapid.IntRange(0, 3).Draw(t, "allow_zero_rows") != 0 {
		n = 1
	}
	for i := 0; i < n; i++ {
		var row hist.Row
		switch r.Kind {
		case 0:
			row.After = rowValues(t, tbl, r.Present1, o.Lim)
		case 1:
			row.Before = rowValues(t, tbl, r.Present1, o.Lim)
			row.After = rowValues(t, tbl, r.Present2, o.Lim)
		case 2:
			row.Before = rowValues(t, tbl, r.Present1, o.Lim)
		}
		r.Rows = append(r.Rows, row)
	}
	full := func(p []bool) bool {
		for _, b := range p {
			if !b {
				return false
			}
		}
		return len(p) > 0
	}
	for i := range r.Rows {
		row := &r.Rows[i]
		// the row that was written last comes back as the before image of this change
		if prev, ok := o.lastAfter[ti]; ok && r.Kind != 0 && full(r.Present1) && rapid.Bool().Draw(t, "before_is_last_after") {
			row.Before = append([]hist.Value{}, prev...)
		}
		// a TIMESTAMP column set by NOW() / ON UPDATE CURRENT_TIMESTAMP holds the second of the event that logs it
		for _, img := range [][]hist.Value{row.Before, row.After} {
			for c := range img {
				if ct := tbl.Cols[c].Type; (ct == refenc.TTimestamp || ct == refenc.TTimestamp2) && !img[c].Null && rapid.IntRange(0, 2).Draw(t, "ts_is_now") == 0 {
					img[c].U, img[c].Us = uint64(r.TS), 0
				}
			}
		}
		if o.lastAfter != nil && r.Kind != 2 {
			pa := r.Present1
			if r.Kind == 1 {
				pa = r.Present2
			}
			if full(pa) {
				o.lastAfter[ti] = append([]hist.Value{}, row.After...)
			}
		}
	}
	if (o.Scale || o.ScaleRows) && len(r.Rows) > 0 && (o.scaleLeft == nil || *o.scaleLeft > 0) && rapid.IntRange(0, 39).Draw(t, "big_rows_event") == 0 {
		// one rows event with more than a thousand rows (what a bulk statement produces)
		small := true
		for _, v := range append(append([]hist.Value{}, r.Rows[0].Before...), r.Rows[0].After...) {
			small = small && v.B.Len() < 100 && v.J == nil
		}
		if small {
			if o.scaleLeft != nil {
				*o.scaleLeft--
			}
			n := rapid.SampledFrom([]int{1024, 1025, 1100, 2500}).Draw(t, "big_rows_n")
			first := r.Rows[0]
			r.Rows = make([]hist.Row, n)
			for i := range r.Rows {
				r.Rows[i] = first
			}
		}
	}
	return r
}

var unknownStmts = []string{"SAVEPOINT x", "FLUSH TABLES", "GRANT ALL ON *.* TO u", "ANALYZE TABLE t", "XA START 'x'", "savepoint `s1`", "OPTIMIZE TABLE t", "RELEASE SAVEPOINT x"}
var ddlStmts = []string{"create TABLE t (a int)", "alter TABLE t ADD b int", "drop TABLE t", "rename TABLE a TO b", "truncate TABLE t", "set PASSWORD FOR u = 'x'", "create", "drop DATABASE d"}
var dmlStmts = []string{"insert INTO t VALUES (1)", "update t SET a = 2", "delete FROM t WHERE a = 1", "insert", "delete"}

// statements that are logged INSIDE a BEGIN...COMMIT group although they are DDL (temporary tables) or SET
var inTxStmts = []string{"create TEMPORARY TABLE tmp (a int)", "drop TEMPORARY TABLE IF EXISTS tmp", "alter TABLE tmp ADD b int", "truncate TABLE tmp", "set @a = 1", "rename TABLE tmp TO tmp2"}

func recase(t *rapid.T, sql string) string {
	i := strings.IndexByte(sql, ' ')
	if i < 0 {
		return Casing(t, sql)
	}
	return Casing(t, sql[:i]) + sql[i:] + sqlTail(t)
}

// sqlTail is statement text behind the first word that must come through verbatim whatever the
// session character set says: a trailing comment with non-ASCII, non-UTF-8 and control bytes.
func sqlTail(t *rapid.T) string {
	if rapid.IntRange(0, 3).Draw(t, "sql_tail") != 0 {
		return ""
	}
	var body string
	switch rapid.IntRange(0, 3).Draw(t, "sql_tail_k") {
	case 0:
		body = rapid.SampledFrom([]string{"caf\u00e9", "\ufffd", "x\ufffdy \u00e9", "caf\xe9 latin1", "\x80\x9f", "\xff\xfe", "a\x00b", "line\nbreak\ttab", "'q' \"dq\" \\", "\U0001F600", "\xc3\x28"}).Draw(t, "sql_tail_s")
	case 1:
		body = string(rapid.SliceOfN(rapid.Byte(), 0, 24).Draw(t, "sql_tail_b"))
	default:
		body = string(refenc.Blob{K: rapid.IntRange(3, 7).Draw(t, "sql_tail_bk"), S: rapid.Uint32().Draw(t, "sql_tail_bs"), N: rapid.IntRange(0, 300).Draw(t, "sql_tail_n")}.Bytes())
	}
	// (a statement text may also simply end in white space)
	return " /* " + body + " */" + rapid.SampledFrom([]string{"", "", "", " ", "\n", "\t\r\n", "  "}).Draw(t, "sql_trailing_ws")
}

func rowsItem(t *rapid.T, tables []hist.Table, ck *clock, o HistOpt) hist.Item {
	it := hist.Item{Kind: hist.IRows, TS: ck.tick(t)}
	nt := 1
	if len(tables) > 1 && rapid.IntRange(0, 3).Draw(t, "multi_table") == 0 {
		nt = 2
	}
	for i := 0; i < nt; i++ {
		ti := rapid.IntRange(0, len(tables)-1).Draw(t, "table")
		dup := false
		for _, m := range it.Maps {
			dup = dup || m == ti
		}
		if !dup {
			it.Maps = append(it.Maps, ti)
		}
	}
	n := rapid.IntRange(1, o.MaxRowsEv).Draw(t, "nrowsev")
	for i := 0; i < n; i++ {
		ti := it.Maps[rapid.IntRange(0, len(it.Maps)-1).Draw(t, "rows_table")]
		it.Rows = append(it.Rows, RowsEvent(t, tables, ti, ck, o))
	}
	return it
}

func ignorableEvent(t *rapid.T, ck *clock, inside bool) (byte, []byte, uint32) {
	types := []byte{refenc.EvIgnorable, refenc.EvUnknown}
	if !inside {
		types = append(types, refenc.EvStop, refenc.EvTxContext, refenc.EvViewChange)
	}
	typ := rapid.SampledFrom(types).Draw(t, "ign_type")
	var body []byte
	if typ != refenc.EvStop {
		body = rapid.SliceOfN(rapid.Byte(), 0, 40).Draw(t, "ign_body")
	}
	return typ, body, ck.tick(t)
}

// Tables draws the table set.
func Tables(t *rapid.T, o HistOpt, idBytes int) []hist.Table {
	nt := rapid.IntRange(1, o.MaxTables).Draw(t, "ntables")
	var tables []hist.Table
	usedID := map[uint64]bool{}
	usedName := map[string]bool{}
	for i := 0; i < nt; i++ {
		var tb hist.Table
		for {
			cands := []uint64{1, 2, 100, 255, 256, 65535, 65536, 1<<24 - 1, 1 << 24, 1<<32 - 2}
			if idBytes == 6 {
				cands = append(cands, 1<<32, 1<<40+5, 1<<48-2)
			}
			if rapid.Bool().Draw(t, "tid_b") {
				tb.ID = rapid.SampledFrom(cands).Draw(t, "tid")
			} else if idBytes == 6 {
				tb.ID = rapid.Uint64Range(1, 1<<48-2).Draw(t, "tid")
			} else {
				tb.ID = rapid.Uint64Range(1, 1<<32-2).Draw(t, "tid")
			}
			if !usedID[tb.ID] {
				usedID[tb.ID] = true
				break
			}
		}
		for {
			tb.DB = Name(t, "db", 64)
			tb.Name = Name(t, "tbl", 64)
			if !usedName[tb.DB+"\x00"+tb.Name] {
				usedName[tb.DB+"\x00"+tb.Name] = true
				break
			}
			tb.Name = fmt.Sprintf("%s_%d", tb.Name[:min(len(tb.Name), 50)], i)
			if !usedName[tb.DB+"\x00"+tb.Name] {
				usedName[tb.DB+"\x00"+tb.Name] = true
				break
			}
		}
		nc := rapid.IntRange(1, o.MaxCols).Draw(t, "ncols")
		if rapid.IntRange(0, 19).Draw(t, "wide") == 0 {
			nc = rapid.IntRange(o.MaxCols, 3*o.MaxCols).Draw(t, "ncols_wide")
		}
		for c := 0; c < nc; c++ {
			col := Column(t, o.Col)
			col.Name = fmt.Sprintf("c%d_%s", c, Name(t, "col", 12))
			tb.Cols = append(tb.Cols, col)
		}
		tables = append(tables, tb)
	}
	return tables
}

func min(a, b int) int {
	if a < b {
		return a
	}
	return b
}

// Config draws a master configuration.
func Config(t *rapid.T) hist.Cfg {
	c := hist.Cfg{Checksum: rapid.Bool().Draw(t, "checksum"), RowsV2: rapid.Bool().Draw(t, "rows_v2"), TableIDBytes: 6}
	if !c.RowsV2 && rapid.Bool().Draw(t, "id4") {
		c.TableIDBytes = 4
	}
	c.GTID57 = rapid.Bool().Draw(t, "gtid57")
	if rapid.Bool().Draw(t, "sv_std") {
		c.ServerVersion = rapid.SampledFrom([]string{"5.6.33-log", "5.7.30-log", "8.0.28", "5.5.62", "10.1.48-MariaDB", "", "5.5.5-10.4.13-MariaDB-log", "5.5.5-", "5.5.5-m3-log", "8.0.36-0ubuntu0.22.04.1", "5.7.44-48-log"}).Draw(t, "server_version")
	} else {
		n := boundaryOr(t, "sv_len", 0, 50, 0, 1, 49, 50)
		c.ServerVersion = strings.ReplaceAll(string(refenc.Blob{K: 7, S: rapid.Uint32().Draw(t, "sv_s"), N: n}.Bytes()), "\x00", "x")
	}
	if c.RowsV2 {
		c.ExtraLen = boundaryOr(t, "extra_len", 0, 40, 0, 1, 2)
		if rapid.IntRange(0, 2).Draw(t, "extra_typed") == 0 {
			c.ExtraKind = rapid.IntRange(1, 3).Draw(t, "extra_kind")
		}
	}
	c.ServerID = rapid.SampledFrom([]uint32{1, 2, 1<<31 - 1, 1 << 31, 1<<32 - 1, 12345}).Draw(t, "master_id")
	c.CreateTS = rapid.Uint32Range(1, 1<<31).Draw(t, "create_ts")
	c.PadBits = rapid.IntRange(0, 2).Draw(t, "pad_bits")
	if rapid.Bool().Draw(t, "hdr_flags") {
		c.HdrFlags = rapid.Uint32Range(1, 1<<32-1).Draw(t, "hdr_flags_seed")
	}
	c.OptMeta = rapid.IntRange(0, 2).Draw(t, "opt_meta") == 0
	return c
}

// History draws a complete history.
func History(t *rapid.T, o HistOpt) *hist.History {
	budget := 1
	o.scaleLeft = &budget
	o.lastAfter = map[int][]hist.Value{}
	if strconv.IntSize == 32 {
		// a 32-bit process has 3 GiB of address space: the scale shapes stay with the 64-bit shards
		o.Scale, o.ScaleTx, o.ScaleRows, o.ManyTables = false, false, false, 0
	}
	h := &hist.History{}
	if o.FixedCfg != nil {
		h.Cfg = *o.FixedCfg
	} else {
		h.Cfg = Config(t)
	}
	gtidMode := rapid.IntRange(0, 2).Draw(t, "gtid_mode") // 0 none, 1 GTID events, 2 anonymous GTID events
	h.Tables = Tables(t, o, h.Cfg.TableIDBytes)
	ck := &clock{now: rapid.SampledFrom([]uint32{1, 1500000000, 1<<31 - 10, 1 << 31, 1<<32 - 2000}).Draw(t, "t0")}
	nUnits := rapid.IntRange(0, o.MaxUnits).Draw(t, "nunits")
	if nUnits == 0 && rapid.IntRange(0, 4).Draw(t, "allow_empty") != 0 {
		nUnits = 1
	}
	rotLeft := 0
	if o.Rotations > 0 {
		rotLeft = rapid.IntRange(0, o.Rotations).Draw(t, "nrot")
	}
	fileNo := rapid.IntRange(1, 999990).Draw(t, "file_no")
	if rapid.IntRange(0, 3).Draw(t, "file_no_b") == 0 {
		// incl. the 999999 -> 1000000 roll-over, where the next name sorts lower as a string
		fileNo = rapid.SampledFrom([]int{1, 9, 99, 999998, 999999}).Draw(t, "file_no_edge")
	}
	fname := func(n int) string { return fmt.Sprintf("mysql-bin.%06d", n) }
	h.FirstFile = fname(fileNo)
	maxType := 27
	use := func(typ byte) {
		if int(typ) > maxType {
			maxType = int(typ)
		}
	}
	if h.Cfg.RowsV2 {
		use(refenc.EvDeleteRowsV2)
	}
	var sid [16]byte
	copy(sid[:], rapid.SliceOfN(rapid.Byte(), 16, 16).Draw(t, "sid"))
	gno := int64(rapid.IntRange(1, 1000).Draw(t, "gno0"))
	prevGTIDs := func() hist.Unit {
		u := hist.Unit{Kind: hist.UPrevGTIDs, TS: ck.tick(t)}
		if gno > 1 {
			u.Prev = []refenc.SIDIntervals{{SID: sid, Intervals: [][2]int64{{1, gno - 1}}}}
		}
		use(refenc.EvPreviousGTIDs)
		return u
	}
	if gtidMode != 0 && rapid.Bool().Draw(t, "prev_first") {
		h.Units = append(h.Units, prevGTIDs())
	}
	between := func() {
		if !o.Ignorables {
			return
		}
		for rapid.IntRange(0, 4).Draw(t, "ign_between") == 0 {
			switch rapid.IntRange(0, 3).Draw(t, "ign_kind") {
			case 0:
				h.Units = append(h.Units, hist.Unit{Kind: hist.UHeartbeat})
				use(refenc.EvHeartbeat)
			case 1:
				typ, body, ts := ignorableEvent(t, ck, false)
				use(typ)
				h.Units = append(h.Units, hist.Unit{Kind: hist.UUnknownEvent, EvType: typ, Body: body, TS: ts})
			case 2:
				h.Units = append(h.Units, hist.Unit{Kind: hist.UUnknownStmt, Q: query(t, ck, "db", recase(t, rapid.SampledFrom(unknownStmts).Draw(t, "ustmt")))})
			default:
				if gtidMode != 0 {
					h.Units = append(h.Units, prevGTIDs())
				}
			}
		}
	}
	for i := 0; i < nUnits; i++ {
		between()
		kind := rapid.SampledFrom(o.Kinds).Draw(t, "unit_kind")
		if gtidMode == 1 {
			h.Units = append(h.Units, hist.Unit{Kind: hist.UGTID, SID: sid, GNO: gno, TS: ck.tick(t)})
			gno++
			use(refenc.EvGTID)
		} else if gtidMode == 2 {
			h.Units = append(h.Units, hist.Unit{Kind: hist.UAnonGTID, TS: ck.tick(t)})
			use(refenc.EvAnonymousGTID)
		}
		u := hist.Unit{Kind: kind}
		db := h.Tables[0].DB
		switch kind {
		case hist.UTxXID, hist.UTxCommit, hist.UTxRollback:
			u.Begin = query(t, ck, db, Casing(t, "begin"))
			ni := rapid.IntRange(0, o.MaxItems).Draw(t, "nitems")
			if ni == 0 && rapid.IntRange(0, 4).Draw(t, "allow_empty_tx") != 0 {
				ni = 1
			}
			for j := 0; j < ni; j++ {
				switch k := rapid.IntRange(0, 9).Draw(t, "item_kind"); {
				case k <= 6 || !o.Ignorables && k >= 8:
					u.Items = append(u.Items, rowsItem(t, h.Tables, ck, o))
				case k == 7:
					pool := dmlStmts
					if rapid.IntRange(0, 2).Draw(t, "in_tx_ddl") == 0 {
						pool = inTxStmts
					}
					u.Items = append(u.Items, hist.Item{Kind: hist.IQuery, Q: query(t, ck, db, recase(t, rapid.SampledFrom(pool).Draw(t, "dml")))})
				case k == 8:
					u.Items = append(u.Items, hist.Item{Kind: hist.IUnknownStmt, Q: query(t, ck, db, recase(t, rapid.SampledFrom(unknownStmts).Draw(t, "ustmt")))})
				default:
					typ, body, ts := ignorableEvent(t, ck, true)
					use(typ)
					u.Items = append(u.Items, hist.Item{Kind: hist.IUnknownEvent, EvType: typ, Body: body, TS: ts})
				}
			}
			if (o.Scale || o.ScaleTx) && *o.scaleLeft > 0 && rapid.IntRange(0, 39).Draw(t, "long_tx") == 0 {
				// one statement split into very many rows events (a long transaction)
				for j := range u.Items {
					if u.Items[j].Kind == hist.IRows {
						small := true
						for _, r := range u.Items[j].Rows {
							small = small && len(r.Rows) <= 8 // not on top of a rows event that is itself large
							for _, row := range r.Rows {
								for _, v := range append(append([]hist.Value{}, row.Before...), row.After...) {
									small = small && v.B.Len() < 200 && v.J == nil
								}
							}
						}
						if small {
							*o.scaleLeft--
							reps := []int{4, 11, 21, 41, 1100, 1100}
							if o.Scale {
								reps = append(reps, 33000) // more than 2^16 events in one transaction
							}
							u.Items[j].Repeat = rapid.SampledFrom(reps).Draw(t, "long_tx_repeat")
						}
						break
					}
				}
			}
			switch kind {
			case hist.UTxXID:
				u.XID = rapid.Uint64().Draw(t, "xid")
				u.TS = ck.tick(t)
			case hist.UTxCommit:
				u.End = query(t, ck, db, Casing(t, "commit"))
			default:
				u.End = query(t, ck, db, Casing(t, "rollback"))
			}
		case hist.UDDL:
			u.Q = query(t, ck, db, recase(t, rapid.SampledFrom(ddlStmts).Draw(t, "ddl")))
		case hist.UStmtDML:
			u.Q = query(t, ck, db, recase(t, rapid.SampledFrom(dmlStmts).Draw(t, "dml")))
		case hist.UAutoRows:
			ti := rapid.IntRange(0, len(h.Tables)-1).Draw(t, "table")
			oo := o
			r := RowsEvent(t, h.Tables, ti, ck, oo)
			u.Items = []hist.Item{{Kind: hist.IRows, Maps: []int{ti}, Rows: []hist.RowsEv{r}, TS: r.TS}}
		}
		h.Units = append(h.Units, u)
		if rotLeft > 0 && rapid.IntRange(0, nUnits).Draw(t, "rot_here") <= o.Rotations {
			rotLeft--
			fileNo++
			between()
			flip := rapid.IntRange(0, 3).Draw(t, "rot_flip_checksum") == 0 // SET GLOBAL binlog_checksum rotates the log
			switch rapid.IntRange(0, 3).Draw(t, "rot_kind") {
			case 0: // the file ends with a STOP event (clean shutdown), no rotate event
				h.Units = append(h.Units, hist.Unit{Kind: hist.UFileEnd, NextFile: fname(fileNo), EvType: refenc.EvStop, TS: ck.tick(t), FlipChecksum: flip})
			case 1: // the file just ends (crash)
				h.Units = append(h.Units, hist.Unit{Kind: hist.UFileEnd, NextFile: fname(fileNo), FlipChecksum: flip})
			default:
				h.Units = append(h.Units, hist.Unit{Kind: hist.URotate, NextFile: fname(fileNo), TS: ck.tick(t), FlipChecksum: flip})
			}
			if !flip && rapid.IntRange(0, 9).Draw(t, "rot_undef_checksum") == 0 {
				h.Units[len(h.Units)-1].UndefChecksum = true
			}
			if gtidMode != 0 && rapid.Bool().Draw(t, "prev_after_rot") {
				h.Units = append(h.Units, prevGTIDs())
			}
		}
	}
	between()
	if o.Scale && len(h.Units) > 0 && *o.scaleLeft > 0 && rapid.IntRange(0, 49).Draw(t, "long_history") == 0 {
		*o.scaleLeft--
		// a long history: the units in front of the first file change are repeated until the stream has well
		// over a thousand events
		cut := len(h.Units)
		for i, u := range h.Units {
			if u.Kind == hist.URotate || u.Kind == hist.UFileEnd {
				cut = i
				break
			}
		}
		small := true
		for _, u := range h.Units[:cut] {
			for _, it := range u.Items {
				if it.Repeat > 1 {
					small = false
				}
				for _, r := range it.Rows {
					small = small && len(r.Rows) <= 8 // the scale shapes do not multiply each other
					for _, row := range r.Rows {
						for _, v := range append(append([]hist.Value{}, row.Before...), row.After...) {
							small = small && v.B.Len() < 300 && v.J == nil
						}
					}
				}
			}
		}
		if cut > 0 && small {
			k := rapid.SampledFrom([]int{30, 120, 300}).Draw(t, "long_history_k")
			if k*cut > 1500 {
				k = 1500/cut + 1
			}
			head := h.Units[:cut]
			tail := append([]hist.Unit{}, h.Units[cut:]...)
			var rep []hist.Unit
			for i := 0; i < k; i++ {
				rep = append(rep, head...)
			}
			h.Units = append(rep, tail...)
		}
	}
	manyOdds := o.ManyTables
	if manyOdds == 0 && o.Scale {
		manyOdds = 50
	}
	if manyOdds > 0 && *o.scaleLeft > 0 && rapid.IntRange(0, manyOdds-1).Draw(t, "many_tables") == 0 {
		*o.scaleLeft--
		// hundreds of tables on one stream, statements that touch two of them: whatever the replica
		// keeps per table id must survive that
		nt := rapid.SampledFrom([]int{130, 300, 520, 700, 1100, 2100}).Draw(t, "many_tables_n")
		base := len(h.Tables)
		for i := 0; i < nt; i++ {
			h.Tables = append(h.Tables, hist.Table{DB: "many", Name: fmt.Sprintf("t%d", i), ID: uint64(100000 + i),
				Cols: []hist.Column{{Name: "id", Type: refenc.TLong}, {Name: "v", Type: refenc.TVarchar, Len: 20, Nullable: true}}})
		}
		val := func(n int) []hist.Value {
			return []hist.Value{{U: uint64(n)}, {B: refenc.Lit([]byte(fmt.Sprintf("v%d", n)))}}
		}
		full := []bool{true, true}
		nst := rapid.SampledFrom([]int{nt, nt + 300, 2 * nt}).Draw(t, "many_tables_stmts")
		for i := 0; i < nst; i++ {
			a, b := base+i%nt, base+(i*7+3)%nt
			if a == b {
				b = base + (a-base+1)%nt
			}
			u := hist.Unit{Kind: hist.UTxXID, Begin: &hist.Query{DB: "many", SQL: "BEGIN", TS: ck.now}, XID: uint64(i), TS: ck.now,
				Items: []hist.Item{{Kind: hist.IRows, Maps: []int{a, b}, TS: ck.now, Rows: []hist.RowsEv{
					{Table: a, Kind: 0, Present1: full, TS: ck.now, Rows: []hist.Row{{After: val(i)}}},
					{Table: b, Kind: 2, Present1: full, TS: ck.now, Rows: []hist.Row{{Before: val(i + 1)}}}}}}}
			h.Units = append(h.Units, u)
		}
	}
	if gtidMode != 0 {
		use(refenc.EvPreviousGTIDs)
	}
	h.Cfg.NHeaderSizes = boundaryOr(t, "nsizes", maxType, 255, maxType, 38, 41, 255)
	h.Base = h.MinBase()
	if o.BigBase && rapid.IntRange(0, 3).Draw(t, "big_base") == 0 {
		// measure the first file, then place it near 2^31 or so that it ends near 2^32
		if l, err := h.Lay(); err == nil {
			end := h.Base
			for _, e := range l.Events {
				if e.File == 0 {
					end = e.End
				}
			}
			size := end - h.Base
			switch rapid.IntRange(0, 2).Draw(t, "base_k") {
			case 0:
				h.Base = int64(1)<<31 - size/2 - int64(rapid.IntRange(0, 64).Draw(t, "base_d"))
			case 1:
				h.Base = int64(1)<<32 - 1 - size - int64(rapid.IntRange(0, 64).Draw(t, "base_d"))
			default:
				h.Base = int64(rapid.Uint32Range(1<<20, 1<<31).Draw(t, "base"))
			}
			if h.Base < h.MinBase() {
				h.Base = h.MinBase()
			}
		}
	}
	return h
}
