package hist

import (
	"fmt"

	"verif/refenc"
)

// Cfg is the master configuration of a history.
type Cfg struct {
	Checksum      bool
	RowsV2        bool
	TableIDBytes  int    // 4 or 6 (v2 rows imply 6)
	GTID57        bool   // GTID events carry the 5.7+ trailer
	ServerVersion string // 0..50 bytes
	NHeaderSizes  int    // entries of the post-header length table (>= highest type used, >= 27)
	ExtraLen      int    // v2 rows: bytes of extra data (beyond the 2-byte length)
	// ExtraKind (v2 rows): 0 opaque bytes (ExtraLen of them), 1 partition info as an 8.0.16+ master writes it
	// for a partitioned table (type 1, partition id; UPDATE also carries the source partition id), 2 NDB info
	// (type 0, length, format, payload), 3 NDB info followed by partition info
	ExtraKind int `json:",omitempty"`
	// HdrFlags != 0: event headers carry the flag bits a master sets (thread-specific / suppress-use on
	// statements, no-filter / MTS-isolate anywhere, ignorable on the event types a replica may skip,
	// binlog-in-use on the format description), chosen per event from this seed; 0: all header flags 0
	HdrFlags uint32 `json:",omitempty"`
	ServerID uint32
	CreateTS uint32
	// PadBits: how the unused high bits of the last bitmap byte are filled in rows events:
	// 0 zeros; 1 ones in per-row NULL bitmaps (what mysqld's pack_row leaves behind);
	// 2 ones in NULL bitmaps and in presence bitmaps (bitmap_set_all)
	PadBits int `json:",omitempty"`
	// OptMeta: table maps carry MySQL-8 optional metadata after the NULL bitmap (SIGNEDNESS for the
	// numeric columns, default charset, column names), consistent with the table definition
	OptMeta bool `json:",omitempty"`
}

// UnitKind enumerates top-level binlog units.
type UnitKind int

// Unit kinds.
const (
	UTxXID        UnitKind = iota // BEGIN ... XID
	UTxCommit                     // BEGIN ... COMMIT (query)
	UTxRollback                   // BEGIN ... ROLLBACK (query)
	UDDL                          // autocommitted DDL / SET query
	UAutoRows                     // table map + one rows event outside BEGIN
	UStmtDML                      // statement-format INSERT/UPDATE/DELETE outside BEGIN
	URotate                       // real ROTATE to the next file
	UGTID                         // GTID_LOG_EVENT
	UAnonGTID                     // ANONYMOUS_GTID_LOG_EVENT
	UPrevGTIDs                    // PREVIOUS_GTIDS_LOG_EVENT
	UHeartbeat                    // artificial heartbeat (occupies no file space)
	UUnknownEvent                 // event of a type the replica does not interpret
	UUnknownStmt                  // query event whose statement the replica does not classify
	UFileEnd                      // the file ends WITHOUT a rotate event (server stop or crash): the master just continues with NextFile
)

func (k UnitKind) String() string {
	return [...]string{"txXID", "txCommit", "txRollback", "ddl", "autoRows", "stmtDML", "rotate", "gtid", "anonGtid", "prevGtids", "heartbeat", "unknownEvent", "unknownStmt", "fileEnd"}[k]
}

// Commits reports whether the unit is a commit point (produces a delivery).
func (k UnitKind) Commits() bool { return k <= UStmtDML }

// ItemKind enumerates what can stand inside a transaction.
type ItemKind int

// Item kinds.
const (
	IRows  ItemKind = iota // table maps followed by rows events (one statement)
	IQuery                 // statement-format DML query event
	IUnknownStmt
	IUnknownEvent
)

// RowsEv is one rows event.
type RowsEv struct {
	Table    int // index into History.Tables
	Kind     int // 0 write, 1 update, 2 delete
	Present1 []bool
	Present2 []bool `json:",omitempty"` // update only
	Rows     []Row
	TS       uint32
}

// Row holds the logical values of one row; Before is used by update/delete,
// After by write/update.  Entries for absent columns are ignored.
type Row struct {
	Before []Value `json:",omitempty"`
	After  []Value `json:",omitempty"`
}

// Query is a query event's content.
type Query struct {
	DB, SQL string
	Charset *[3]uint16         `json:",omitempty"`
	Vars    []refenc.StatusVar `json:",omitempty"` // other status variables, in emission order; code 4 is placed by Charset
	TS      uint32
	ErrCode uint16 `json:",omitempty"`
	// Thread and Exec are the post-header's thread id (0 stands for the usual 7) and execution time
	Thread, Exec uint32 `json:",omitempty"`
}

// Item is one element of a transaction body.
type Item struct {
	Kind   ItemKind
	Maps   []int    `json:",omitempty"` // IRows: tables announced (in order)
	Rows   []RowsEv `json:",omitempty"`
	Q      *Query   `json:",omitempty"` // IQuery, IUnknownStmt
	EvType byte     `json:",omitempty"` // IUnknownEvent
	Body   []byte   `json:",omitempty"`
	TS     uint32   `json:",omitempty"`
	// Repeat > 1: the rows events of an IRows item are logged Repeat times over (one statement that
	// touched many rows is split into many rows events); a compact way to describe long transactions
	Repeat int `json:",omitempty"`
}

// Unit is one top-level unit.
type Unit struct {
	Kind     UnitKind
	Begin    *Query `json:",omitempty"` // tx kinds: the BEGIN query (casing varies)
	End      *Query `json:",omitempty"` // UTxCommit / UTxRollback
	XID      uint64 `json:",omitempty"`
	TS       uint32 `json:",omitempty"` // XID / rotate / misc event timestamp
	Items    []Item `json:",omitempty"` // tx kinds; UAutoRows has exactly one IRows item with one rows event
	Q        *Query `json:",omitempty"` // UDDL, UStmtDML, UUnknownStmt
	NextFile string `json:",omitempty"` // URotate, UFileEnd
	// FlipChecksum: the next file is written with the other checksum setting (SET GLOBAL
	// binlog_checksum rotates the log); only meaningful on URotate / UFileEnd
	FlipChecksum bool `json:",omitempty"`
	// UndefChecksum: the next file's format description announces checksum algorithm 255 ("undefined",
	// what a server writes for events whose origin did not say) and its events carry no checksum
	UndefChecksum bool `json:",omitempty"`
	SID          [16]byte
	GNO          int64                 `json:",omitempty"`
	Prev         []refenc.SIDIntervals `json:",omitempty"`
	EvType       byte                  `json:",omitempty"` // UUnknownEvent
	Body         []byte                `json:",omitempty"`
}

// History is a complete logical binlog: configuration, tables and units.  The
// first file starts (after its format description) at Base.
type History struct {
	Cfg       Cfg
	Tables    []Table
	FirstFile string
	Base      int64 // offset of the first unit in the first file (>= 4 + FDE size)
	Units     []Unit
}

// Pos is a binlog coordinate.
type Pos struct {
	File string
	Off  int64
}

// Ev is one laid-out event.
type Ev struct {
	File       int
	Start, End int64
	Bytes      []byte
	Unit       int  // index of the unit it belongs to
	Commit     bool // the event that closes a commit-point unit
	Rotate     bool
	Virtual    bool // occupies no file space (heartbeat)
	Type       byte
}

// Layout is a history turned into bytes.
type Layout struct {
	H         *History
	Files     []string
	CRC       []bool   // per file: events carry a CRC32
	Alg       []byte   // per file: the checksum algorithm byte its format description announces (0, 1 or 255)
	FDE       [][]byte // per file, as stored at offset 4
	Events    []Ev
	UnitStart []Pos // coordinates of each unit's first event
	UnitEnd   []Pos // coordinates after each unit's last event
	Format    *refenc.Header
}

func (h *History) sizes() []byte {
	return refenc.StdHeaderSizes(h.Cfg.NHeaderSizes, h.Cfg.TableIDBytes)
}

func algOf(crc bool) byte {
	if crc {
		return refenc.ChecksumCRC32
	}
	return refenc.ChecksumOff
}

// FDEBytes builds the first file's format description event with the given log_pos.
func (h *History) FDEBytes(logPos uint32) []byte { return h.FDEBytesCRC(logPos, h.Cfg.Checksum) }

// FDEBytesCRC builds a format description event announcing the given checksum setting.
func (h *History) FDEBytesCRC(logPos uint32, crc bool) []byte { return h.FDEBytesAlg(logPos, algOf(crc)) }

// FDEBytesAlg builds a format description event announcing the given checksum algorithm byte.
func (h *History) FDEBytesAlg(logPos uint32, alg byte) []byte {
	body := refenc.FDEBody(4, h.Cfg.ServerVersion, h.Cfg.CreateTS, 19, h.sizes(), alg)
	fl := uint16(0)
	if h.Cfg.HdrFlags&1 != 0 {
		fl = 0x1 // LOG_EVENT_BINLOG_IN_USE_F: the file is the master's active one
	}
	return refenc.BuildEvent(refenc.Header{Timestamp: h.Cfg.CreateTS, Type: refenc.EvFormatDesc, ServerID: h.Cfg.ServerID, LogPos: logPos, Flags: fl}, body, true)
}

// FDESize is the size of the format description event.
func (h *History) FDESize() int64 { return int64(len(h.FDEBytes(0))) }

// MinBase is the smallest legal Base.
func (h *History) MinBase() int64 { return 4 + h.FDESize() }

func (h *History) queryBody(q *Query) []byte {
	vars := make([]refenc.StatusVar, 0, len(q.Vars)+1)
	placed := q.Charset == nil
	cs := refenc.StatusVar{}
	if q.Charset != nil {
		cs = refenc.CharsetVar(q.Charset[0], q.Charset[1], q.Charset[2])
	}
	rank := func(code byte) int {
		for i, c := range refenc.StatusVarOrder {
			if c == code {
				return i
			}
		}
		return 99
	}
	for _, v := range q.Vars {
		if !placed && rank(v.Code) > rank(4) {
			vars = append(vars, cs)
			placed = true
		}
		vars = append(vars, v)
	}
	if !placed {
		vars = append(vars, cs)
	}
	th := q.Thread
	if th == 0 {
		th = 7
	}
	return refenc.QueryBody(th, q.Exec, q.ErrCode, refenc.StatusVars(vars), q.DB, q.SQL)
}

// RowImage encodes one image of a row.
func RowImage(tbl *Table, present []bool, vals []Value) []byte {
	return RowImagePad(tbl, present, vals, false)
}

// RowImagePad is RowImage with a choice of NULL-bitmap padding.
func RowImagePad(tbl *Table, present []bool, vals []Value, padOnes bool) []byte {
	null := make([]bool, len(tbl.Cols))
	cells := make([][]byte, len(tbl.Cols))
	for c := range tbl.Cols {
		if !present[c] {
			continue
		}
		if vals[c].Null {
			null[c] = true
			continue
		}
		cells[c] = EncodeCell(tbl.Cols[c], vals[c])
	}
	return refenc.ImagePad(present, null, cells, padOnes)
}

// RowsEventType returns the event type code for a rows event kind.
func RowsEventType(kind int, v2 bool) byte {
	if v2 {
		return byte(refenc.EvWriteRowsV2 + kind)
	}
	return byte(refenc.EvWriteRowsV1 + kind)
}

// TableMapBody encodes the table map of a table.
func (h *History) TableMapBody(t *Table, optional []byte) []byte {
	types := make([]byte, len(t.Cols))
	var meta []byte
	nullable := make([]bool, len(t.Cols))
	for i, c := range t.Cols {
		types[i] = c.Type
		meta = append(meta, c.MetaBytes()...)
		nullable[i] = c.Nullable
	}
	return refenc.TableMapBody(h.Cfg.TableIDBytes, t.ID, 1, t.DB, t.Name, types, meta, nullable, optional)
}

// RowsBody encodes a rows event body.
func (h *History) RowsBody(r *RowsEv, last bool) []byte {
	t := &h.Tables[r.Table]
	var rows [][]byte
	for _, row := range r.Rows {
		var b []byte
		np := h.Cfg.PadBits >= 1
		switch r.Kind {
		case 0:
			b = RowImagePad(t, r.Present1, row.After, np)
		case 1:
			b = append(RowImagePad(t, r.Present1, row.Before, np), RowImagePad(t, r.Present2, row.After, np)...)
		case 2:
			b = RowImagePad(t, r.Present1, row.Before, np)
		}
		rows = append(rows, b)
	}
	flags := uint16(0)
	if last {
		flags = refenc.FlagStmtEnd
	}
	var p2 []bool
	if r.Kind == 1 {
		p2 = r.Present2
	}
	extra := make([]byte, h.Cfg.ExtraLen)
	for i := range extra {
		extra[i] = byte(0xE0 + i)
	}
	if h.Cfg.ExtraKind != 0 {
		extra = nil
		if h.Cfg.ExtraKind >= 2 {
			n := h.Cfg.ExtraLen % 9 // payload bytes
			extra = append(extra, 0, byte(2+n), 0x7f)
			for i := 0; i < n; i++ {
				extra = append(extra, byte(0xA0+i))
			}
		}
		if h.Cfg.ExtraKind == 1 || h.Cfg.ExtraKind == 3 {
			pid := uint16(h.Cfg.ExtraLen*37) ^ uint16(t.ID)
			extra = append(extra, 1, byte(pid), byte(pid>>8))
			if r.Kind == 1 {
				src := uint16(h.Cfg.ExtraLen) // 0 is a legitimate source partition
				extra = append(extra, byte(src), byte(src>>8))
			}
		}
	}
	return refenc.RowsBodyPad(h.Cfg.TableIDBytes, t.ID, flags, h.Cfg.RowsV2, extra, len(t.Cols), r.Present1, p2, rows, h.Cfg.PadBits >= 2)
}

// hdrFlags derives the header flag bits of event number idx (see Cfg.HdrFlags).
func (h *History) hdrFlags(typ byte, idx int) uint16 {
	if h.Cfg.HdrFlags == 0 {
		return 0
	}
	x := h.Cfg.HdrFlags*2654435761 ^ uint32(idx+1)*40503
	x ^= x >> 13
	x *= 2246822519
	x ^= x >> 16
	var mask, always uint16
	switch typ {
	case refenc.EvQuery:
		mask = 0x4 | 0x8 | 0x100 | 0x200
	case refenc.EvIgnorable, refenc.EvRowsQuery, refenc.EvTxContext, refenc.EvViewChange, refenc.EvUnknown:
		always, mask = 0x80, 0x100
	case refenc.EvRotate, refenc.EvStop:
	default:
		mask = 0x100 | 0x200
	}
	if x&3 != 0 { // three events in four carry nothing optional
		mask = 0
	}
	return always | uint16(x>>8)&mask
}

// Lay lays the history out into events with exact offsets.
func (h *History) Lay() (*Layout, error) {
	l := &Layout{H: h, Files: []string{h.FirstFile}, CRC: []bool{h.Cfg.Checksum}, Alg: []byte{algOf(h.Cfg.Checksum)}}
	if h.Base < h.MinBase() {
		return nil, fmt.Errorf("base %d below %d", h.Base, h.MinBase())
	}
	crc := h.Cfg.Checksum
	file := 0
	off := h.Base
	l.FDE = append(l.FDE, h.FDEBytes(uint32(4+h.FDESize())))
	add := func(unit int, ts uint32, typ byte, flags uint16, body []byte, commit bool) error {
		size := int64(refenc.EventSize(len(body), crc))
		end := off + size
		if end > 0xffffffff {
			return fmt.Errorf("offset overflow")
		}
		flags |= h.hdrFlags(typ, len(l.Events))
		b := refenc.BuildEvent(refenc.Header{Timestamp: ts, Type: typ, ServerID: h.Cfg.ServerID, LogPos: uint32(end), Flags: flags}, body, crc)
		l.Events = append(l.Events, Ev{File: file, Start: off, End: end, Bytes: b, Unit: unit, Commit: commit, Type: typ, Rotate: typ == refenc.EvRotate})
		off = end
		return nil
	}
	addItems := func(ui int, items []Item) error {
		for _, it := range items {
			switch it.Kind {
			case IRows:
				for _, ti := range it.Maps {
					ts := it.TS
					var opt []byte
					if h.Cfg.OptMeta {
						opt = OptionalMetadata(&h.Tables[ti])
					}
					if err := add(ui, ts, refenc.EvTableMap, 0, h.TableMapBody(&h.Tables[ti], opt), false); err != nil {
						return err
					}
				}
				reps := it.Repeat
				if reps < 1 {
					reps = 1
				}
				for rep := 0; rep < reps; rep++ {
					for ri := range it.Rows {
						r := &it.Rows[ri]
						commit := h.Units[ui].Kind == UAutoRows
						last := ri == len(it.Rows)-1 && rep == reps-1
						if err := add(ui, r.TS, RowsEventType(r.Kind, h.Cfg.RowsV2), 0, h.RowsBody(r, last), commit); err != nil {
							return err
						}
						// flags are inside the body; header flags stay 0
					}
				}
			case IQuery, IUnknownStmt:
				if err := add(ui, it.Q.TS, refenc.EvQuery, 0, h.queryBody(it.Q), false); err != nil {
					return err
				}
			case IUnknownEvent:
				if err := add(ui, it.TS, it.EvType, 0, it.Body, false); err != nil {
					return err
				}
			}
		}
		return nil
	}
	nextFile := func(u *Unit) {
		if u.FlipChecksum {
			crc = !crc
		}
		alg := algOf(crc)
		if u.UndefChecksum {
			crc, alg = false, refenc.ChecksumUndef
		}
		l.Files = append(l.Files, u.NextFile)
		l.CRC = append(l.CRC, crc)
		l.Alg = append(l.Alg, alg)
		file++
		l.FDE = append(l.FDE, h.FDEBytesAlg(uint32(4+h.FDESize()), alg))
		off = 4 + h.FDESize()
	}
	for ui := range h.Units {
		u := &h.Units[ui]
		l.UnitStart = append(l.UnitStart, Pos{l.Files[file], off})
		var err error
		switch u.Kind {
		case UTxXID, UTxCommit, UTxRollback:
			if err = add(ui, u.Begin.TS, refenc.EvQuery, 0, h.queryBody(u.Begin), false); err != nil {
				return nil, err
			}
			if err = addItems(ui, u.Items); err != nil {
				return nil, err
			}
			if u.Kind == UTxXID {
				err = add(ui, u.TS, refenc.EvXID, 0, refenc.XIDBody(u.XID), true)
			} else {
				err = add(ui, u.End.TS, refenc.EvQuery, 0, h.queryBody(u.End), true)
			}
		case UDDL, UStmtDML:
			err = add(ui, u.Q.TS, refenc.EvQuery, 0, h.queryBody(u.Q), true)
		case UAutoRows:
			err = addItems(ui, u.Items)
		case UUnknownStmt:
			err = add(ui, u.Q.TS, refenc.EvQuery, 0, h.queryBody(u.Q), false)
		case URotate:
			err = add(ui, u.TS, refenc.EvRotate, 0, refenc.RotateBody(4, u.NextFile), false)
			if err == nil {
				nextFile(u)
			}
		case UFileEnd:
			if u.EvType == refenc.EvStop {
				err = add(ui, u.TS, refenc.EvStop, 0, nil, false)
			}
			if err == nil {
				nextFile(u)
			}
		case UGTID:
			err = add(ui, u.TS, refenc.EvGTID, 0, refenc.GTIDBody(1, u.SID, u.GNO, h.Cfg.GTID57, int64(ui), int64(ui)+1), false)
		case UAnonGTID:
			err = add(ui, u.TS, refenc.EvAnonymousGTID, 0, refenc.GTIDBody(1, [16]byte{}, 0, h.Cfg.GTID57, int64(ui), int64(ui)+1), false)
		case UPrevGTIDs:
			err = add(ui, u.TS, refenc.EvPreviousGTIDs, 0, refenc.SIDBlock(u.Prev), false)
		case UHeartbeat:
			body := []byte(l.Files[file])
			b := refenc.BuildEvent(refenc.Header{Timestamp: 0, Type: refenc.EvHeartbeat, ServerID: h.Cfg.ServerID, LogPos: uint32(off), Flags: 0}, body, crc)
			l.Events = append(l.Events, Ev{File: file, Start: off, End: off, Bytes: b, Unit: ui, Virtual: true, Type: refenc.EvHeartbeat})
		case UUnknownEvent:
			err = add(ui, u.TS, u.EvType, 0, u.Body, false)
		}
		if err != nil {
			return nil, err
		}
		l.UnitEnd = append(l.UnitEnd, Pos{l.Files[file], off})
	}
	return l, nil
}

// ArtificialRotate is the fake ROTATE a master sends first.
func (h *History) ArtificialRotate(file string, pos int64) []byte {
	return h.ArtificialRotateCRC(file, pos, h.Cfg.Checksum)
}

// ArtificialRotateCRC: the fake ROTATE carries a checksum according to the setting the dump
// thread has seen last, i.e. the PREVIOUS file's (for the very first one: the requested file's).
func (h *History) ArtificialRotateCRC(file string, pos int64, crc bool) []byte {
	return refenc.BuildEvent(refenc.Header{Timestamp: 0, Type: refenc.EvRotate, ServerID: h.Cfg.ServerID, LogPos: 0, Flags: refenc.FlagArtificial},
		refenc.RotateBody(uint64(pos), file), crc)
}

// FileIndex finds a file by name.
func (l *Layout) FileIndex(name string) int {
	for i, f := range l.Files {
		if f == name {
			return i
		}
	}
	return -1
}

// firstOffset is the offset of the first stored unit event of a file.
func (l *Layout) firstOffset(file int) int64 {
	if file == 0 {
		return l.H.Base
	}
	return 4 + l.H.FDESize()
}

// EventIndexAt returns the index of the first event served for a dump request
// at (file, off): off must be 4 (start of file; only meaningful when the file's
// stored events start right after its format description), the start of a
// stored event, or the end of the file.  ok=false means the master must answer
// with an error (as a real master does for a position inside an event).
func (l *Layout) EventIndexAt(file int, off int64) (int, bool) {
	if off == 4 && l.firstOffset(file) == 4+l.H.FDESize() {
		off = l.firstOffset(file)
	}
	after := len(l.Events) // index of the first event beyond this file
	end := l.firstOffset(file)
	for i, e := range l.Events {
		if e.File > file {
			after = i
			break
		}
		if e.File != file {
			continue
		}
		if !e.Virtual && e.Start == off {
			return i, true
		}
		end = e.End
	}
	if off == end {
		return after, true
	}
	return 0, false
}

// ServedFiles is Served plus, for every payload, the index of the file whose format
// description is in force once that payload has been processed.
func (l *Layout) ServedFiles(fileName string, off int64) (payloads [][]byte, evIdx []int, files []int, ok bool) {
	payloads, evIdx, ok = l.Served(fileName, off)
	if !ok {
		return
	}
	if fileName == "" {
		fileName = l.Files[0]
	}
	cur := l.FileIndex(fileName)
	artificial := 0
	for i := range payloads {
		if evIdx[i] < 0 {
			artificial++
			// announcements come in pairs (artificial rotate, format description); the format
			// changes with the second element of every pair after the first pair
			if artificial%2 == 0 && artificial > 2 {
				cur++
			}
		}
		files = append(files, cur)
	}
	return
}

// Served returns the event payloads (without the leading 0x00 packet byte) a
// master sends for a dump request at (file, off), with, for each, the index of
// the laid-out event it carries (-1 for artificial rotate / format description).
func (l *Layout) Served(fileName string, off int64) (payloads [][]byte, evIdx []int, ok bool) {
	if fileName == "" {
		fileName = l.Files[0] // an empty name asks for the master's first binlog file
	}
	file := l.FileIndex(fileName)
	if file < 0 {
		return nil, nil, false
	}
	idx, ok := l.EventIndexAt(file, off)
	if !ok {
		return nil, nil, false
	}
	h := l.H
	// The first fake ROTATE is sent before any format description was read: the dump thread
	// frames it with the checksum algorithm the replica announced, i.e. the master's CURRENT
	// global setting (Binlog_sender::init_checksum_alg) = the setting of the newest file, which
	// can differ from that of the (older) file the dump starts in.
	payloads = append(payloads, h.ArtificialRotateCRC(fileName, off, l.CRC[len(l.CRC)-1]))
	evIdx = append(evIdx, -1)
	fde := l.FDE[file]
	if off > 4 {
		fde = h.FDEBytesAlg(0, l.Alg[file])
	}
	payloads = append(payloads, fde)
	evIdx = append(evIdx, -1)
	announce := func(upTo int) {
		for file < upTo {
			file++
			payloads = append(payloads, h.ArtificialRotateCRC(l.Files[file], 4, l.CRC[file-1]), l.FDE[file])
			evIdx = append(evIdx, -1, -1)
		}
	}
	for i := idx; i < len(l.Events); i++ {
		e := l.Events[i]
		// crossed into a later file (after a real ROTATE, or because the previous file simply
		// ended): artificial rotate + that file's format description
		announce(e.File)
		payloads = append(payloads, e.Bytes)
		evIdx = append(evIdx, i)
	}
	// files that follow without any stored event are still announced
	announce(len(l.Files) - 1)
	return payloads, evIdx, true
}

// Boundaries lists the coordinates of every top-level unit boundary (start of
// each unit and the end of the history), i.e. the valid start positions.
func (l *Layout) Boundaries() []Pos {
	var out []Pos
	for i, p := range l.UnitStart {
		if l.H.Units[i].Kind == UHeartbeat {
			continue
		}
		out = append(out, p)
	}
	if n := len(l.UnitEnd); n > 0 {
		out = append(out, l.UnitEnd[n-1])
	} else {
		out = append(out, Pos{l.H.FirstFile, l.H.Base})
	}
	return out
}

// OptionalMetadata builds the optional-metadata block a MySQL 8 master appends to a table map:
// SIGNEDNESS (type 1: one bit per numeric column - integers, FLOAT, DOUBLE, DECIMAL - in column
// order, most significant bit first), DEFAULT_CHARSET (type 2) and COLUMN_NAME (type 4).
func OptionalMetadata(t *Table) []byte {
	var bits []bool
	for _, c := range t.Cols {
		switch c.Type {
		case refenc.TTiny, refenc.TShort, refenc.TInt24, refenc.TLong, refenc.TLongLong, refenc.TFloat, refenc.TDouble, refenc.TNewDecimal:
			bits = append(bits, c.Unsigned)
		}
	}
	var out []byte
	if len(bits) > 0 {
		b := make([]byte, (len(bits)+7)/8)
		for i, v := range bits {
			if v {
				b[i/8] |= 0x80 >> uint(i%8)
			}
		}
		out = append(out, refenc.OptionalTLV(1, b)...)
	}
	out = append(out, refenc.OptionalTLV(2, []byte{45})...) // default charset utf8mb4_general_ci, no exceptions
	var names []byte
	for _, c := range t.Cols {
		n := c.Name
		if len(n) > 250 {
			n = n[:250]
		}
		names = refenc.LenEnc(names, uint64(len(n)))
		names = append(names, n...)
	}
	out = append(out, refenc.OptionalTLV(4, names)...)
	return out
}
