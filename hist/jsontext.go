package hist

import (
	"bytes"
	"fmt"
	"math"
	"strconv"
	"strings"

	"verif/refenc"
)

// CheckJSONText parses the SQL-expression text the library renders for a JSON
// column (the grammar its TestJSON documents: JSON_OBJECT('k',v,...),
// JSON_ARRAY(...), quoted top-level scalars, '"..."' top-level strings,
// CAST('...' AS DATE|TIME(6)|DATETIME(6)|DECIMAL(p,s)) with an outer
// CAST(... AS JSON) at top level) and compares it with the document.
func CheckJSONText(got []byte, doc *refenc.JNode) error {
	p := &jparser{b: got}
	if err := p.value(doc, true, "$"); err != nil {
		return fmt.Errorf("JSON text %q: %v", clip(got), err)
	}
	if p.pos != len(p.b) {
		return fmt.Errorf("JSON text %q: %d trailing bytes after the document", clip(got), len(p.b)-p.pos)
	}
	return nil
}

type jparser struct {
	b   []byte
	pos int
}

func (p *jparser) lit(s string) bool {
	if bytes.HasPrefix(p.b[p.pos:], []byte(s)) {
		p.pos += len(s)
		return true
	}
	return false
}

func (p *jparser) expect(s, path string) error {
	if !p.lit(s) {
		return fmt.Errorf("at %s offset %d: expected %q, found %q", path, p.pos, s, clip(p.b[p.pos:]))
	}
	return nil
}

// quoted reads '...' (no quote characters inside, by the generator's contract).
func (p *jparser) quoted(path string) ([]byte, error) {
	if err := p.expect("'", path); err != nil {
		return nil, err
	}
	i := bytes.IndexByte(p.b[p.pos:], '\'')
	if i < 0 {
		return nil, fmt.Errorf("at %s: unterminated quoted text", path)
	}
	s := p.b[p.pos : p.pos+i]
	p.pos += i + 1
	return s, nil
}

func (p *jparser) token() string {
	st := p.pos
	for p.pos < len(p.b) {
		c := p.b[p.pos]
		if c == ',' || c == ')' || c == '\'' {
			break
		}
		p.pos++
	}
	return string(p.b[st:p.pos])
}

func isIntText(s string) bool {
	if strings.HasPrefix(s, "-") {
		s = s[1:]
	}
	if s == "" {
		return false
	}
	for i := 0; i < len(s); i++ {
		if s[i] < '0' || s[i] > '9' {
			return false
		}
	}
	return true
}

func (p *jparser) scalarText(n *refenc.JNode, s string, path string) error {
	switch n.K {
	case refenc.JNull, refenc.JTrue, refenc.JFalse:
		want := map[refenc.JKind]string{refenc.JNull: "null", refenc.JTrue: "true", refenc.JFalse: "false"}[n.K]
		if s != want {
			return fmt.Errorf("at %s: literal %q, want %q", path, s, want)
		}
	case refenc.JInt:
		if !isIntText(s) {
			return fmt.Errorf("at %s: %q is not an integer, want %d", path, s, n.I)
		}
		v, err := strconv.ParseInt(s, 10, 64)
		if err != nil || v != n.I {
			return fmt.Errorf("at %s: integer %q, want %d", path, s, n.I)
		}
	case refenc.JUint:
		if !isIntText(s) {
			return fmt.Errorf("at %s: %q is not an integer, want %d", path, s, n.U)
		}
		v, err := strconv.ParseUint(s, 10, 64)
		if err != nil || v != n.U {
			return fmt.Errorf("at %s: integer %q, want %d", path, s, n.U)
		}
	case refenc.JDouble:
		v, err := strconv.ParseFloat(s, 64)
		if err != nil || math.Float64bits(v) != n.U {
			return fmt.Errorf("at %s: double %q, want bits %#x (%v)", path, s, n.U, math.Float64frombits(n.U))
		}
	default:
		return fmt.Errorf("at %s: internal: not a plain scalar", path)
	}
	return nil
}

func atoiStrict(s string) (int, bool) {
	if s == "" {
		return 0, false
	}
	for i := 0; i < len(s); i++ {
		if s[i] < '0' || s[i] > '9' {
			return 0, false
		}
	}
	v, err := strconv.Atoi(s)
	return v, err == nil
}

func parseDate(s string) (y, m, d int, ok bool) {
	parts := strings.Split(s, "-")
	if len(parts) != 3 {
		return
	}
	var a, b, c bool
	y, a = atoiStrict(parts[0])
	m, b = atoiStrict(parts[1])
	d, c = atoiStrict(parts[2])
	ok = a && b && c
	return
}

func parseClock(s string) (h, mi, sec, us int, ok bool) {
	frac := ""
	if i := strings.IndexByte(s, '.'); i >= 0 {
		frac = s[i+1:]
		s = s[:i]
		if frac == "" || len(frac) > 6 {
			return
		}
	}
	parts := strings.Split(s, ":")
	if len(parts) != 3 {
		return
	}
	var a, b, c bool
	h, a = atoiStrict(parts[0])
	mi, b = atoiStrict(parts[1])
	sec, c = atoiStrict(parts[2])
	ok = a && b && c
	if frac != "" {
		var f bool
		us, f = atoiStrict(frac + strings.Repeat("0", 6-len(frac)))
		ok = ok && f
	}
	return
}

func normDecimal(s string) (string, bool) {
	neg := strings.HasPrefix(s, "-")
	if neg {
		s = s[1:]
	}
	ip, fp := s, ""
	if i := strings.IndexByte(s, '.'); i >= 0 {
		ip, fp = s[:i], s[i+1:]
		if fp == "" {
			return "", false
		}
	}
	if ip == "" {
		return "", false
	}
	for _, c := range ip + fp {
		if c < '0' || c > '9' {
			return "", false
		}
	}
	ip = strings.TrimLeft(ip, "0")
	fp = strings.TrimRight(fp, "0")
	out := ip + "." + fp
	if neg && out != "." {
		out = "-" + out
	}
	return out, true
}

func (p *jparser) opaque(n *refenc.JNode, top bool, path string) error {
	if top {
		if err := p.expect("CAST(", path); err != nil {
			return err
		}
	}
	if err := p.expect("CAST(", path); err != nil {
		return err
	}
	q, err := p.quoted(path)
	if err != nil {
		return err
	}
	s := string(q)
	if err := p.expect(" AS ", path); err != nil {
		return err
	}
	st := p.pos
	for p.pos < len(p.b) && p.b[p.pos] >= 'A' && p.b[p.pos] <= 'Z' {
		p.pos++
	}
	base := string(p.b[st:p.pos])
	typ := base
	if p.pos < len(p.b) && p.b[p.pos] == '(' {
		i := bytes.IndexByte(p.b[p.pos:], ')')
		if i < 0 {
			return fmt.Errorf("at %s: unterminated type arguments", path)
		}
		typ += string(p.b[p.pos : p.pos+i+1])
		p.pos += i + 1
	}
	if err := p.expect(")", path); err != nil {
		return err
	}
	if top {
		if err := p.expect(" AS JSON)", path); err != nil {
			return err
		}
	}
	switch n.K {
	case refenc.JDate:
		y, m, d, ok := parseDate(s)
		if base != "DATE" || !ok || y != n.Y || m != n.Mo || d != n.D {
			return fmt.Errorf("at %s: got %q AS %s, want DATE %04d-%02d-%02d", path, s, typ, n.Y, n.Mo, n.D)
		}
	case refenc.JTime:
		neg := strings.HasPrefix(s, "-")
		h, mi, sec, us, ok := parseClock(strings.TrimPrefix(s, "-"))
		if base != "TIME" || !ok || neg != n.Neg || h != n.H || mi != n.Mi || sec != n.Sec || us != n.Us {
			return fmt.Errorf("at %s: got %q AS %s, want TIME %s.%06d", path, s, typ, TimeText(n.Neg, n.H, n.Mi, n.Sec), n.Us)
		}
	case refenc.JDateTime:
		sp := strings.IndexByte(s, ' ')
		if sp < 0 {
			return fmt.Errorf("at %s: got %q AS %s, want a DATETIME", path, s, typ)
		}
		y, m, d, ok1 := parseDate(s[:sp])
		h, mi, sec, us, ok2 := parseClock(s[sp+1:])
		if base != "DATETIME" || !ok1 || !ok2 || y != n.Y || m != n.Mo || d != n.D || h != n.H || mi != n.Mi || sec != n.Sec || us != n.Us {
			return fmt.Errorf("at %s: got %q AS %s, want DATETIME %04d-%02d-%02d %02d:%02d:%02d.%06d", path, s, typ, n.Y, n.Mo, n.D, n.H, n.Mi, n.Sec, n.Us)
		}
	case refenc.JDecimal:
		want, _ := normDecimal(DecimalText(n.Digits, n.P, n.Sc, n.Neg))
		g, ok := normDecimal(s)
		wantTyp := fmt.Sprintf("DECIMAL(%d,%d)", n.P, n.Sc)
		if !ok || g != want || strings.ReplaceAll(typ, " ", "") != wantTyp {
			return fmt.Errorf("at %s: got %q AS %s, want %q AS %s", path, s, typ, DecimalText(n.Digits, n.P, n.Sc, n.Neg), wantTyp)
		}
	}
	return nil
}

func (p *jparser) value(n *refenc.JNode, top bool, path string) error {
	switch n.K {
	case refenc.JObject:
		if err := p.expect("JSON_OBJECT(", path); err != nil {
			return err
		}
		for i, kid := range n.Kids {
			if i > 0 {
				if err := p.expect(",", path); err != nil {
					return err
				}
			}
			k, err := p.quoted(path)
			if err != nil {
				return err
			}
			if string(k) != n.Keys[i] {
				return fmt.Errorf("at %s: key #%d is %q, want %q", path, i, clip(k), n.Keys[i])
			}
			if err := p.expect(",", path); err != nil {
				return err
			}
			if err := p.value(kid, false, path+"."+n.Keys[i]); err != nil {
				return err
			}
		}
		return p.expect(")", path)
	case refenc.JArray:
		if err := p.expect("JSON_ARRAY(", path); err != nil {
			return err
		}
		for i, kid := range n.Kids {
			if i > 0 {
				if err := p.expect(",", path); err != nil {
					return err
				}
			}
			if err := p.value(kid, false, fmt.Sprintf("%s[%d]", path, i)); err != nil {
				return err
			}
		}
		return p.expect(")", path)
	case refenc.JString:
		q, err := p.quoted(path)
		if err != nil {
			return err
		}
		want := n.S.Bytes()
		if top {
			if len(q) < 2 || q[0] != '"' || q[len(q)-1] != '"' {
				return fmt.Errorf("at %s: top-level string %q is not of the form '\"...\"'", path, clip(q))
			}
			q = q[1 : len(q)-1]
		}
		if !bytes.Equal(q, want) {
			return fmt.Errorf("at %s: string %q, want %q", path, clip(q), clip(want))
		}
		return nil
	case refenc.JDate, refenc.JTime, refenc.JDateTime, refenc.JDecimal:
		return p.opaque(n, top, path)
	default:
		if top {
			q, err := p.quoted(path)
			if err != nil {
				return err
			}
			return p.scalarText(n, string(q), path)
		}
		return p.scalarText(n, p.token(), path)
	}
}
