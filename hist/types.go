// Package hist holds the logical model of a binlog history (tables, values,
// units), lays it out into bytes through refenc, and computes — from the
// logical values only, never from bytes — what a correct replica must deliver.
package hist

import (
	"fmt"

	"verif/refenc"
)

// Column is one column of a generated table: the binlog type code that the
// table map carries plus the logical parameters that determine its metadata.
type Column struct {
	Name     string
	Type     byte
	Len      int  `json:",omitempty"` // VARCHAR/CHAR/BINARY max bytes; BIT nbits; blob length bytes; ENUM/SET pack length
	Real     byte `json:",omitempty"` // TString only: 254 CHAR/BINARY, 247 ENUM, 248 SET
	P, S     int  `json:",omitempty"` // DECIMAL
	Fsp      int  `json:",omitempty"`
	Nullable bool `json:",omitempty"`
	Unsigned bool `json:",omitempty"`
}

// Table is one generated table.
type Table struct {
	DB, Name string
	ID       uint64
	Cols     []Column
}

// Value is a logical cell value.  Which fields matter depends on the column.
type Value struct {
	Null bool          `json:",omitempty"`
	U    uint64        `json:",omitempty"` // integer bit pattern, YEAR byte, ENUM index, SET mask, TIMESTAMP seconds, float bits
	B    refenc.Blob   `json:",omitempty"` // strings, blobs, BIT bytes, geometry
	Dig  string        `json:",omitempty"` // DECIMAL: exactly P digits
	Neg  bool          `json:",omitempty"` // DECIMAL / TIME sign
	Y    int           `json:",omitempty"`
	Mo   int           `json:",omitempty"`
	D    int           `json:",omitempty"`
	H    int           `json:",omitempty"`
	Mi   int           `json:",omitempty"`
	S    int           `json:",omitempty"`
	Us   int           `json:",omitempty"`
	J    *refenc.JNode `json:",omitempty"`
}

// MetaBytes is the column's metadata as the master writes it into the table map.
func (c Column) MetaBytes() []byte {
	switch c.Type {
	case refenc.TFloat:
		return []byte{4}
	case refenc.TDouble:
		return []byte{8}
	case refenc.TTimestamp2, refenc.TDateTime2, refenc.TTime2:
		return []byte{byte(c.Fsp)}
	case refenc.TBlob, refenc.TTinyBlob, refenc.TMediumBlob, refenc.TLongBlob, refenc.TJSON, refenc.TGeometry:
		return []byte{byte(c.Len)}
	case refenc.TVarchar, refenc.TVarString:
		return []byte{byte(c.Len), byte(c.Len >> 8)}
	case refenc.TBit:
		return []byte{byte(c.Len % 8), byte(c.Len / 8)}
	case refenc.TNewDecimal:
		return []byte{byte(c.P), byte(c.S)}
	case refenc.TString:
		switch c.Real {
		case refenc.TEnum, refenc.TSet:
			return []byte{c.Real, byte(c.Len)}
		default:
			return []byte{byte(refenc.TString) ^ byte((c.Len&0x300)>>4), byte(c.Len)}
		}
	case refenc.TEnum, refenc.TSet:
		return []byte{c.Type, byte(c.Len)}
	}
	return nil
}

// LibMeta is the per-column metadata value the library documents for
// TableMap.Metadata (zero / one byte / two bytes, see the TableMap doc comment),
// derived from the logical parameters.
func (c Column) LibMeta() uint16 {
	switch c.Type {
	case refenc.TFloat:
		return 4
	case refenc.TDouble:
		return 8
	case refenc.TTimestamp2, refenc.TDateTime2, refenc.TTime2:
		return uint16(c.Fsp)
	case refenc.TBlob, refenc.TTinyBlob, refenc.TMediumBlob, refenc.TLongBlob, refenc.TJSON, refenc.TGeometry:
		return uint16(c.Len)
	case refenc.TVarchar, refenc.TVarString:
		return uint16(c.Len)
	case refenc.TBit:
		return uint16(c.Len/8)<<8 | uint16(c.Len%8)
	case refenc.TNewDecimal:
		return uint16(c.P)<<8 | uint16(c.S)
	case refenc.TString:
		switch c.Real {
		case refenc.TEnum, refenc.TSet:
			return uint16(c.Real)<<8 | uint16(c.Len)
		default:
			return uint16(byte(refenc.TString)^byte((c.Len&0x300)>>4))<<8 | uint16(c.Len&0xff)
		}
	case refenc.TEnum, refenc.TSet:
		return uint16(c.Type)<<8 | uint16(c.Len)
	}
	return 0
}

// IntWidth returns the byte width of an integer column type (0 if not one).
func IntWidth(t byte) int {
	switch t {
	case refenc.TTiny:
		return 1
	case refenc.TShort:
		return 2
	case refenc.TInt24:
		return 3
	case refenc.TLong:
		return 4
	case refenc.TLongLong:
		return 8
	}
	return 0
}

// EncodeCell is the bytes the master writes for a non-NULL value.
func EncodeCell(c Column, v Value) []byte {
	switch c.Type {
	case refenc.TTiny, refenc.TShort, refenc.TInt24, refenc.TLong, refenc.TLongLong:
		return refenc.IntLE(v.U, IntWidth(c.Type))
	case refenc.TFloat:
		return refenc.IntLE(v.U, 4)
	case refenc.TDouble:
		return refenc.IntLE(v.U, 8)
	case refenc.TYear:
		return []byte{byte(v.U)}
	case refenc.TDate, refenc.TNewDate:
		return refenc.DateOld(v.Y, v.Mo, v.D)
	case refenc.TTime:
		return refenc.TimeOld(v.Neg, v.H, v.Mi, v.S)
	case refenc.TDateTime:
		return refenc.DateTimeOld(v.Y, v.Mo, v.D, v.H, v.Mi, v.S)
	case refenc.TTimestamp:
		return refenc.IntLE(v.U, 4)
	case refenc.TTimestamp2:
		return refenc.Timestamp2(uint32(v.U), v.Us, c.Fsp)
	case refenc.TDateTime2:
		return refenc.DateTime2(v.Y, v.Mo, v.D, v.H, v.Mi, v.S, v.Us, c.Fsp)
	case refenc.TTime2:
		return refenc.Time2(v.Neg, v.H, v.Mi, v.S, v.Us, c.Fsp)
	case refenc.TVarchar, refenc.TVarString:
		n := 1
		if c.Len > 255 {
			n = 2
		}
		return refenc.LenPrefixed(v.B.Bytes(), n)
	case refenc.TBit:
		return v.B.Bytes()
	case refenc.TNewDecimal:
		return refenc.Decimal2Bin(v.Dig, c.P, c.S, v.Neg)
	case refenc.TBlob, refenc.TTinyBlob, refenc.TMediumBlob, refenc.TLongBlob, refenc.TGeometry:
		return refenc.LenPrefixed(v.B.Bytes(), c.Len)
	case refenc.TJSON:
		return refenc.LenPrefixed(refenc.JSONBinary(v.J, nil), c.Len)
	case refenc.TString:
		switch c.Real {
		case refenc.TEnum, refenc.TSet:
			return refenc.IntLE(v.U, c.Len)
		}
		n := 1
		if c.Len > 255 {
			n = 2
		}
		return refenc.LenPrefixed(v.B.Bytes(), n)
	case refenc.TEnum, refenc.TSet:
		return refenc.IntLE(v.U, c.Len)
	}
	panic(fmt.Sprintf("hist: EncodeCell: unsupported type %d", c.Type))
}
