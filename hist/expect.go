package hist

import (
	"bytes"
	"fmt"
	"math"
	"strconv"
	"strings"
	"time"

	"verif/refenc"
)

// Expect describes what a delivered (non-NULL, present) value must look like.
type Expect struct {
	Kind int // 0 exact bytes; 1 float32 with bits U; 2 float64 with bits U; 3 JSON document
	Text []byte
	U    uint64
	J    *refenc.JNode
}

// Check compares delivered bytes with the expectation.
func (e Expect) Check(got []byte) error {
	switch e.Kind {
	case 0:
		if got == nil {
			return fmt.Errorf("got nil data, want %q", e.Text)
		}
		if !bytes.Equal(got, e.Text) {
			return fmt.Errorf("got %q, want %q", clip(got), clip(e.Text))
		}
		return nil
	case 1, 2:
		s := string(got)
		if strings.ContainsAny(s, "eE") {
			return fmt.Errorf("float text %q has an exponent", s)
		}
		if len(s) == 0 {
			return fmt.Errorf("empty float text")
		}
		if e.Kind == 1 {
			f, err := strconv.ParseFloat(s, 32)
			if err != nil {
				return fmt.Errorf("float text %q does not parse: %v", s, err)
			}
			if math.Float32bits(float32(f)) != uint32(e.U) {
				return fmt.Errorf("float text %q parses to bits %#x, want %#x", s, math.Float32bits(float32(f)), uint32(e.U))
			}
			return nil
		}
		f, err := strconv.ParseFloat(s, 64)
		if err != nil {
			return fmt.Errorf("double text %q does not parse: %v", s, err)
		}
		if math.Float64bits(f) != e.U {
			return fmt.Errorf("double text %q parses to bits %#x, want %#x", s, math.Float64bits(f), e.U)
		}
		return nil
	case 3:
		return CheckJSONText(got, e.J)
	}
	return fmt.Errorf("bad Expect kind %d", e.Kind)
}

func clip(b []byte) []byte {
	if len(b) > 120 {
		return append(append([]byte{}, b[:100]...), fmt.Sprintf("...(%d bytes)", len(b))...)
	}
	return b
}

// civil converts seconds since the epoch (already shifted into the target
// zone) into broken-down fields without going through time.Time formatting
// (days-from-civil inverse, Howard Hinnant's algorithm).
func civil(sec int64) (y, mo, d, h, mi, s int) {
	days := sec / 86400
	rem := sec % 86400
	if rem < 0 {
		rem += 86400
		days--
	}
	h, mi, s = int(rem/3600), int(rem%3600/60), int(rem%60)
	z := days + 719468
	era := z / 146097
	if z < 0 {
		era = (z - 146096) / 146097
	}
	doe := z - era*146097
	yoe := (doe - doe/1460 + doe/36524 - doe/146096) / 365
	yy := yoe + era*400
	doy := doe - (365*yoe + yoe/4 - yoe/100)
	mp := (5*doy + 2) / 153
	d = int(doy - (153*mp+2)/5 + 1)
	if mp < 10 {
		mo = int(mp + 3)
	} else {
		mo = int(mp - 9)
	}
	if mo <= 2 {
		yy++
	}
	return int(yy), mo, d, h, mi, s
}

// TimestampText renders the instant in the process's local zone; 0 is the zero
// timestamp.
func TimestampText(sec uint32) string {
	if sec == 0 {
		return "0000-00-00 00:00:00"
	}
	_, off := time.Unix(int64(sec), 0).In(time.Local).Zone()
	y, mo, d, h, mi, s := civil(int64(sec) + int64(off))
	return fmt.Sprintf("%04d-%02d-%02d %02d:%02d:%02d", y, mo, d, h, mi, s)
}

func fracText(us, fsp int) string {
	if fsp == 0 {
		return ""
	}
	return "." + fmt.Sprintf("%06d", us)[:fsp]
}

// TimeText is MySQL's canonical TIME text.
func TimeText(neg bool, h, mi, s int) string {
	sign := ""
	if neg {
		sign = "-"
	}
	return fmt.Sprintf("%s%02d:%02d:%02d", sign, h, mi, s)
}

// DecimalText is the canonical text of a DECIMAL(p,s) digit string.
func DecimalText(dig string, p, s int, neg bool) string {
	intg := dig[:p-s]
	frac := dig[p-s:]
	intg = strings.TrimLeft(intg, "0")
	if intg == "" {
		intg = "0"
	}
	out := intg
	if s > 0 {
		out += "." + frac
	}
	if neg {
		out = "-" + out
	}
	return out
}

// ExpectCell computes the expected delivery for a non-NULL value of column c.
// unsigned is what the table mapper reports for the column.
func ExpectCell(c Column, v Value, unsigned bool) Expect {
	txt := func(s string) Expect { return Expect{Text: []byte(s)} }
	switch c.Type {
	case refenc.TTiny, refenc.TShort, refenc.TInt24, refenc.TLong, refenc.TLongLong:
		w := uint(IntWidth(c.Type)) * 8
		u := v.U
		if w < 64 {
			u &= (1 << w) - 1
		}
		if unsigned {
			return txt(strconv.FormatUint(u, 10))
		}
		if w < 64 && u&(1<<(w-1)) != 0 {
			return txt(strconv.FormatInt(int64(u)-(1<<w), 10))
		}
		return txt(strconv.FormatInt(int64(u), 10))
	case refenc.TFloat:
		return Expect{Kind: 1, U: v.U & 0xffffffff}
	case refenc.TDouble:
		return Expect{Kind: 2, U: v.U}
	case refenc.TYear:
		if byte(v.U) == 0 {
			return txt("0000")
		}
		return txt(strconv.Itoa(1900 + int(byte(v.U))))
	case refenc.TDate, refenc.TNewDate:
		return txt(fmt.Sprintf("%04d-%02d-%02d", v.Y, v.Mo, v.D))
	case refenc.TTime:
		return txt(TimeText(v.Neg, v.H, v.Mi, v.S))
	case refenc.TDateTime:
		return txt(fmt.Sprintf("%04d-%02d-%02d %02d:%02d:%02d", v.Y, v.Mo, v.D, v.H, v.Mi, v.S))
	case refenc.TTimestamp:
		return txt(TimestampText(uint32(v.U)))
	case refenc.TTimestamp2:
		return txt(TimestampText(uint32(v.U)) + fracText(v.Us, c.Fsp))
	case refenc.TDateTime2:
		return txt(fmt.Sprintf("%04d-%02d-%02d %02d:%02d:%02d", v.Y, v.Mo, v.D, v.H, v.Mi, v.S) + fracText(v.Us, c.Fsp))
	case refenc.TTime2:
		return txt(TimeText(v.Neg, v.H, v.Mi, v.S) + fracText(v.Us, c.Fsp))
	case refenc.TVarchar, refenc.TVarString, refenc.TBit, refenc.TBlob, refenc.TTinyBlob, refenc.TMediumBlob, refenc.TLongBlob, refenc.TGeometry:
		return Expect{Text: v.B.Bytes()}
	case refenc.TNewDecimal:
		return txt(DecimalText(v.Dig, c.P, c.S, v.Neg))
	case refenc.TJSON:
		return Expect{Kind: 3, J: v.J}
	case refenc.TString:
		switch c.Real {
		case refenc.TEnum, refenc.TSet:
			u := v.U
			if c.Len < 8 {
				u &= (1 << (8 * uint(c.Len))) - 1
			}
			return txt(strconv.FormatUint(u, 10))
		}
		return Expect{Text: v.B.Bytes()}
	case refenc.TEnum:
		u := v.U & ((1 << (8 * uint(c.Len))) - 1)
		return txt(strconv.FormatUint(u, 10))
	case refenc.TSet:
		return Expect{Text: refenc.IntLE(v.U, c.Len)}
	}
	panic(fmt.Sprintf("hist: ExpectCell: unsupported type %d", c.Type))
}
