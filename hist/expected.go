package hist

import (
	"strings"
)

// ExpCol is the expected delivery of one column of one row image.
type ExpCol struct {
	Name   string
	Type   byte
	Absent bool
	Null   bool
	Exp    Expect
}

// ExpEvent is one expected StreamEvent.
type ExpEvent struct {
	Kind       string // "insert", "update", "delete", "create", ...
	DB, Table  string // rows events
	TS         int64
	IsQuery    bool
	QDB, SQL   string
	Charset    *[3]int32
	Values     [][]ExpCol // per row
	Identifies [][]ExpCol
	// provenance, for exactly-once bookkeeping
	Unit, Item, Rows int
}

// ExpTx is one expected delivery.
type ExpTx struct {
	Now, Next Pos
	TS        int64
	Events    []ExpEvent
	Unit      int
	// CommitEv is the index (in Layout.Events) of the event that commits it.
	CommitEv int
}

// StatementKind classifies SQL the way a replica must: by its first word,
// case-insensitively.
func StatementKind(sql string) string {
	w := sql
	if i := strings.IndexByte(sql, ' '); i >= 0 {
		w = sql[:i]
	}
	w = strings.ToLower(w)
	switch w {
	case "begin", "commit", "rollback", "insert", "update", "delete", "create", "alter", "drop", "truncate", "rename", "set":
		return w
	}
	return "unknown"
}

func expImage(t *Table, present []bool, vals []Value) []ExpCol {
	out := make([]ExpCol, len(t.Cols))
	for c, col := range t.Cols {
		out[c] = ExpCol{Name: col.Name, Type: col.Type}
		switch {
		case !present[c]:
			out[c].Absent = true
		case vals[c].Null:
			out[c].Null = true
		default:
			out[c].Exp = ExpectCell(col, vals[c], col.Unsigned)
		}
	}
	return out
}

func (h *History) expQuery(q *Query, ui, ii int) ExpEvent {
	e := ExpEvent{Kind: StatementKind(q.SQL), TS: int64(q.TS), IsQuery: true, QDB: q.DB, SQL: q.SQL, Unit: ui, Item: ii}
	if q.Charset != nil {
		e.Charset = &[3]int32{int32(q.Charset[0]), int32(q.Charset[1]), int32(q.Charset[2])}
	}
	return e
}

func (h *History) expItems(ui int, items []Item) []ExpEvent {
	var out []ExpEvent
	for ii, it := range items {
		switch it.Kind {
		case IRows:
			reps := it.Repeat
			if reps < 1 {
				reps = 1
			}
			for rep := 0; rep < reps; rep++ {
				for ri := range it.Rows {
					r := &it.Rows[ri]
					t := &h.Tables[r.Table]
					e := ExpEvent{Kind: [...]string{"insert", "update", "delete"}[r.Kind], DB: t.DB, Table: t.Name, TS: int64(r.TS), Unit: ui, Item: ii, Rows: ri}
					for _, row := range r.Rows {
						switch r.Kind {
						case 0:
							e.Values = append(e.Values, expImage(t, r.Present1, row.After))
						case 1:
							e.Identifies = append(e.Identifies, expImage(t, r.Present1, row.Before))
							e.Values = append(e.Values, expImage(t, r.Present2, row.After))
						case 2:
							e.Identifies = append(e.Identifies, expImage(t, r.Present1, row.Before))
						}
					}
					out = append(out, e)
				}
			}
		case IQuery:
			out = append(out, h.expQuery(it.Q, ui, ii))
		}
	}
	return out
}

// Expected computes, from the logical history alone, the transactions a replica
// that starts at the given unit boundary must deliver.  startUnit is the index
// of the first unit served (len(Units) = nothing).  start is the position given
// to the replica.
func (l *Layout) Expected(start Pos, startUnit int) []ExpTx {
	h := l.H
	pos := start
	var out []ExpTx
	commitEv := map[int]int{}
	for i, e := range l.Events {
		if e.Commit {
			commitEv[e.Unit] = i
		}
	}
	for ui := startUnit; ui < len(h.Units); ui++ {
		u := &h.Units[ui]
		if u.Kind == URotate || u.Kind == UFileEnd {
			pos = Pos{u.NextFile, 4}
			continue
		}
		if !u.Kind.Commits() {
			continue
		}
		tx := ExpTx{Now: pos, Unit: ui, CommitEv: commitEv[ui]}
		ce := l.Events[tx.CommitEv]
		tx.Next = Pos{l.Files[ce.File], ce.End}
		switch u.Kind {
		case UTxXID:
			tx.TS = int64(u.TS)
			tx.Events = h.expItems(ui, u.Items)
		case UTxCommit:
			tx.TS = int64(u.End.TS)
			tx.Events = h.expItems(ui, u.Items)
		case UTxRollback:
			tx.TS = int64(u.End.TS)
		case UDDL, UStmtDML:
			tx.TS = int64(u.Q.TS)
			tx.Events = []ExpEvent{h.expQuery(u.Q, ui, 0)}
		case UAutoRows:
			tx.Events = h.expItems(ui, u.Items)
			tx.TS = tx.Events[0].TS
		}
		pos = tx.Next
		out = append(out, tx)
	}
	return out
}

// UnitAt returns the index of the unit that starts at p (or len(Units) for the
// end of the history); ok=false if p is not a unit boundary.
func (l *Layout) UnitAt(p Pos) (int, bool) {
	if p.Off == 4 && len(l.Files) > 0 {
		fi := l.FileIndex(p.File)
		if fi >= 0 && l.firstOffset(fi) == 4+l.H.FDESize() {
			p.Off = l.firstOffset(fi)
		}
	}
	for i, s := range l.UnitStart {
		if s == p && l.H.Units[i].Kind != UHeartbeat {
			return i, true
		}
	}
	n := len(l.UnitEnd)
	if n > 0 && l.UnitEnd[n-1] == p {
		return n, true
	}
	if n == 0 && p == (Pos{l.H.FirstFile, l.H.Base}) {
		return 0, true
	}
	return 0, false
}
