package props

import (
	"encoding/json"
	"fmt"
	"os"
	"path/filepath"
	"testing"

	"github.com/Breeze0806/gobinlog"
	"pgregory.net/rapid"

	"verif/gen"
	"verif/hist"
	"verif/refenc"
)

// journal writes the case about to run, so that a crash of the whole process
// (a panic on a library goroutine) still leaves a replayable case behind.
func journal(id, check string, c interface{}) {
	dir := os.Getenv("VERIF_RUNDIR")
	if dir == "" {
		return
	}
	raw, _ := json.Marshal(c)
	b, _ := json.Marshal(replayFile{Property: id, Check: check, Error: "process crashed while running this case", Case: raw, Arch: buildArch()})
	os.WriteFile(filepath.Join(dir, fmt.Sprintf("journal-%s-%d.json", id, envShard)), b, 0o644)
}

// checkC04 runs the attempts of a scenario on ONE streamer and checks that the
// handler accepted every committed transaction exactly once and in order, and
// that every attempt after a failed one asks for a position inside the window
// [end of the last accepted transaction, start of the next transaction].
func checkC04(c *FaultCase) (nontrivial bool, err error) {
	e := E2ECase{H: c.H, StartIdx: c.StartIdx}
	l, start, su, lerr := e.layout()
	if lerr != nil {
		return false, fmt.Errorf("harness: %v", lerr)
	}
	exp := l.Expected(start, su)
	ss, serr := newSession(c.H.Tables, 31, start)
	if serr != nil {
		return false, fmt.Errorf("harness: %v", serr)
	}
	defer ss.close()
	var accepted []*gobinlog.Transaction
	attempts := append(append([]AttemptSpec{}, c.Attempts...), AttemptSpec{Fault: Fault{Kind: "none"}, Seek: c.FinalSeek})
	for i, spec := range attempts {
		var seeked *hist.Pos
		if spec.Seek > 0 && i > 0 {
			k := spec.Seek - 1
			if k > len(accepted) {
				k = len(accepted)
			}
			to := start
			if k > 0 {
				to = exp[k-1].Next
			}
			ss.s.SetBinlogPosition(gobinlog.Position{Filename: to.File, Offset: to.Off})
			accepted = accepted[:k]
			seeked = &to
		}
		at, cleanup := faultAttempt(ss, l, spec)
		st := ss.run(at)
		cleanup()
		st.drainLib()
		if err := st.panicErr(); err != nil {
			return nontrivial, fmt.Errorf("attempt %d (%s at %d): %v", i+1, spec.Fault.Kind, spec.Fault.At, err)
		}
		what := fmt.Sprintf("attempt %d (%s at %d)", i+1, spec.Fault.Kind, spec.Fault.At)
		if req, ok := st.dump(); ok {
			allowed := allowedResume(l, exp, len(accepted), start, su)
			if seeked != nil {
				allowed = map[hist.Pos]bool{*seeked: true}
			}
			p := hist.Pos{File: req.File, Off: int64(req.Pos)}
			if !allowed[p] {
				return nontrivial, fmt.Errorf("%s: dump request asks for %q:%d after %d accepted transactions; allowed resume points are %v", what, req.File, req.Pos, len(accepted), keys(allowed))
			}
		} else if spec.Fault.Kind == "none" {
			return nontrivial, fmt.Errorf("%s: the clean attempt never reached the dump request [stream err: %v]", what, st.streamErr)
		}
		before := len(accepted)
		accepted = append(accepted, st.got...)
		if spec.Fault.Kind != "none" && len(accepted) > 0 && len(accepted) < len(exp) {
			nontrivial = true // the fault landed after >= 1 accepted transaction and before the end of the history
		}
		if len(accepted) > len(exp) {
			return nontrivial, fmt.Errorf("%s: %d transactions accepted so far, the history has only %d (a transaction was delivered again)", what, len(accepted), len(exp))
		}
		if err := compareTxs(accepted[before:], exp[before:len(accepted)], false); err != nil {
			return nontrivial, fmt.Errorf("%s: accepted transactions %d..: %v", what, before, err)
		}
	}
	if len(accepted) != len(exp) {
		return nontrivial, fmt.Errorf("after the clean attempt %d transactions were accepted in total, the history has %d", len(accepted), len(exp))
	}
	return nontrivial, nil
}

func keys(m map[hist.Pos]bool) []string {
	var out []string
	for k := range m {
		out = append(out, fmt.Sprintf("%s:%d", k.File, k.Off))
	}
	sortStrings(out)
	return out
}

func init() {
	registerReplay("c04", func(raw json.RawMessage) error {
		var c FaultCase
		if err := json.Unmarshal(raw, &c); err != nil {
			return err
		}
		_, err := checkC04(&c)
		return err
	})
}

func faultHistOpt() gen.HistOpt {
	o := gen.DefaultHistOpt(limits(), false)
	o.MaxUnits, o.MaxItems, o.MaxRowsEv, o.MaxRows, o.MaxCols, o.MaxTables = 5, 2, 2, 2, 3, 2
	o.BigBase = false
	o.Rotations = 1
	o.Scale = false
	o.ScaleRows = true
	o.Col = gen.ColumnOpt{Only: []byte{refenc.TLong, refenc.TVarchar, refenc.TTiny, refenc.TNewDecimal}, NoHeavy: true}
	return o
}

func TestC04(t *testing.T) {
	rec := recorder("C04")
	defer rec.Flush(t)
	o := faultHistOpt()
	kinds := append(append([]string{}, masterFaults...), clientFaults...)
	kinds = append(kinds, "err_handshake", "err_query", "dump_write_fails") // attempts that fail before the dump starts must leave the position alone
	// thorough tier: ENUMERATE one failing attempt = (kind x every fault point x pacing) on fixed history shapes
	if thorough() {
		idx, n, stop := 0, 0, false
		shapes := []*hist.History{seqHistory([]int{0, 1, 4}, 1), seqHistory([]int{0, 7, 1, 5}, 6), seqHistory([]int{3, 2, 14, 0, 6}, 9)}
		for _, h := range shapes {
			l, err := h.Lay()
			if err != nil {
				continue
			}
			payloads, _, _ := l.Served(h.FirstFile, h.Base)
			nsteps := len(payloads) + 1
			ntx := len(l.Expected(hist.Pos{File: h.FirstFile, Off: h.Base}, 0))
			for _, k := range kinds {
				var points []int
				switch {
				case isMasterFault(k):
					lo := 0
					if k == "invalid" || k == "unsupported" || k == "undecodable" {
						lo = 2
					}
					for i := lo; i < nsteps; i++ {
						points = append(points, i)
					}
				case k == "cancel_out":
					for i := 0; i <= nsteps; i++ {
						points = append(points, i)
					}
				case k == "cancel_in" || k == "cancel_busy" || k == "handler_err" || k == "handler_err_cancel":
					for i := 1; i <= ntx; i++ {
						points = append(points, i)
					}
				case k == "cancel_log":
					for i := 1; i <= 3*nsteps+4; i++ {
						points = append(points, i)
					}
				case k == "err_handshake" || k == "err_query" || k == "dump_write_fails":
					points = []int{0}
				default:
					points = []int{1}
				}
				for _, at := range points {
					for pacing := 0; pacing <= 1 && !stop; pacing++ {
						for sub := 0; sub < 2 && !stop; sub++ {
							idx++
							if idx%envNShards != envShard {
								continue
							}
							f := Fault{Kind: k, At: at, Sub: sub*3 + idx%3, ErrCode: 1236, Msg: "enumerated"}
							if k == "mapper_cols" {
								f.Sub = []int{-1, 1}[sub]
							}
							c := &FaultCase{H: h, Attempts: []AttemptSpec{{Fault: f, Pacing: pacing}}}
							n++
							journal("C04", "c04", c)
							nt, err := checkC04(c)
							rec.Case(nt, c, "enumerated", "fault/"+k, fmt.Sprintf("pacing=%d", pacing))
							if err != nil {
								rec.Violation("c04", c, "", err)
								t.Errorf("C04 violation (enumerated scenario): %v", err)
								stop = true
							}
						}
					}
				}
			}
		}
		rec.Note("enumerated %d single-fault scenarios in this shard", n)
		rec.MarkExhaustive("fault kind x every fault point x pacing on three fixed history shapes, one failing attempt then a clean one (thorough tier)")
	}
	rapidCheck(t, func(rt *rapid.T) {
		c := &FaultCase{H: gen.History(rt, o)}
		if rapid.IntRange(0, 3).Draw(rt, "mid_start") == 0 {
			c.StartIdx = rapid.IntRange(0, 10).Draw(rt, "start_idx")
		}
		e := E2ECase{H: c.H, StartIdx: c.StartIdx}
		l, start, su, err := e.layout()
		if err != nil {
			rt.Skip(err.Error())
		}
		payloads, _, _ := l.Served(start.File, start.Off)
		nsteps := len(payloads) + 1
		ntx := len(l.Expected(start, su))
		na := rapid.IntRange(1, 3).Draw(rt, "failed_attempts")
		cls := []string{fmt.Sprintf("failed-attempts=%d", na)}
		for i := 0; i < na; i++ {
			spec := AttemptSpec{Fault: drawFault(rt, kinds, nsteps, ntx), Pacing: rapid.IntRange(0, 1).Draw(rt, "pacing")}
			if i > 0 && rapid.IntRange(0, 5).Draw(rt, "seek") == 0 {
				spec.Seek = rapid.IntRange(1, 4).Draw(rt, "seek_to")
			}
			c.Attempts = append(c.Attempts, spec)
			cls = append(cls, "fault/"+spec.Fault.Kind, fmt.Sprintf("pacing=%d", spec.Pacing))
		}
		if rapid.IntRange(0, 5).Draw(rt, "seek_last") == 0 {
			c.FinalSeek = rapid.IntRange(1, 4).Draw(rt, "seek_last_to")
			cls = append(cls, "caller-repositions-between-attempts")
		}
		journal("C04", "c04", c)
		nt, err := checkC04(c)
		rec.Case(nt, c, cls...)
		if nt {
			rec.Sample(c)
		}
		if err != nil {
			rec.Violation("c04", c, "", err)
			rt.Fatalf("C04 violation: %v", err)
		}
	})
}
