package props

import (
	"bytes"
	"encoding/hex"
	"encoding/json"
	"fmt"
	"math"
	"sort"
	"strings"
	"testing"

	"github.com/Breeze0806/gobinlog/replication"
	"pgregory.net/rapid"

	"verif/refenc"
)

// gmodel is the reference model of a MySQL 5.6 GTID set: per UUID a sorted
// list of disjoint, non-adjacent closed intervals.
type gmodel map[[16]byte][][2]int64

func canon(ivs [][2]int64) [][2]int64 {
	if len(ivs) == 0 {
		return nil
	}
	s := append([][2]int64{}, ivs...)
	sort.Slice(s, func(i, j int) bool { return s[i][0] < s[j][0] })
	out := [][2]int64{s[0]}
	for _, iv := range s[1:] {
		last := &out[len(out)-1]
		if last[1] == math.MaxInt64 || iv[0] <= last[1]+1 {
			if iv[1] > last[1] {
				last[1] = iv[1]
			}
			continue
		}
		out = append(out, iv)
	}
	return out
}

func (m gmodel) clone() gmodel {
	c := gmodel{}
	for k, v := range m {
		c[k] = append([][2]int64{}, v...)
	}
	return c
}

func (m gmodel) add(sid [16]byte, n int64) gmodel {
	c := m.clone()
	c[sid] = canon(append(c[sid], [2]int64{n, n}))
	return c
}

func (m gmodel) has(sid [16]byte, n int64) bool {
	for _, iv := range m[sid] {
		if iv[0] <= n && n <= iv[1] {
			return true
		}
	}
	return false
}

// superset: every interval of o is inside some interval of m (both canonical).
func (m gmodel) superset(o gmodel) bool {
	for sid, ivs := range o {
		for _, iv := range ivs {
			ok := false
			for _, mv := range m[sid] {
				if mv[0] <= iv[0] && iv[1] <= mv[1] {
					ok = true
				}
			}
			if !ok {
				return false
			}
		}
	}
	return true
}

func (m gmodel) equal(o gmodel) bool { return m.superset(o) && o.superset(m) }

func sidText(s [16]byte) string {
	h := hex.EncodeToString(s[:])
	return h[:8] + "-" + h[8:12] + "-" + h[12:16] + "-" + h[16:20] + "-" + h[20:]
}

func (m gmodel) sids() [][16]byte {
	var out [][16]byte
	for k, v := range m {
		if len(v) > 0 {
			out = append(out, k)
		}
	}
	sort.Slice(out, func(i, j int) bool { return bytes.Compare(out[i][:], out[j][:]) < 0 })
	return out
}

// text is the canonical form MySQL prints.
func (m gmodel) text() string {
	var parts []string
	for _, sid := range m.sids() {
		s := sidText(sid)
		for _, iv := range m[sid] {
			if iv[0] == iv[1] {
				s += fmt.Sprintf(":%d", iv[0])
			} else {
				s += fmt.Sprintf(":%d-%d", iv[0], iv[1])
			}
		}
		parts = append(parts, s)
	}
	return strings.Join(parts, ",")
}

func (m gmodel) block() []byte {
	var in []refenc.SIDIntervals
	for _, sid := range m.sids() {
		in = append(in, refenc.SIDIntervals{SID: sid, Intervals: m[sid]})
	}
	return refenc.SIDBlock(in)
}

// build makes the library's set from the model through the binary SID block
// (never through the text parser).
func (m gmodel) build() (replication.Mysql56GTIDSet, error) {
	return replication.NewMysql56GTIDSetFromSIDBlock(m.block())
}

func maskModel(sid [16]byte, mask int, base int64) gmodel {
	m := gmodel{}
	var ivs [][2]int64
	for b := 0; b < 8; b++ {
		if mask&(1<<uint(b)) != 0 {
			ivs = append(ivs, [2]int64{base + int64(b), base + int64(b)})
		}
	}
	if c := canon(ivs); c != nil {
		m[sid] = c
	}
	return m
}

// GTIDOp is one step of the stateful check.
type GTIDOp struct {
	SID int // index into the UUID pool
	N   int64
	On  int // index of the retained set the GTID is added to
}

// GTIDSeqCase is a sequence of AddGTID steps from the empty set or from a drawn set.
type GTIDSeqCase struct {
	Pool  [][16]byte
	Start map[int][][2]int64 // by pool index
	Ops   []GTIDOp
}

func checkSetAgainst(set replication.GTIDSet, m gmodel, what string) error {
	if got := set.String(); got != m.text() {
		return fmt.Errorf("%s prints %q, the model says %q", what, got, m.text())
	}
	s56, ok := set.(replication.Mysql56GTIDSet)
	if !ok {
		return fmt.Errorf("%s is a %T", what, set)
	}
	blk := s56.SIDBlock()
	if !bytes.Equal(blk, m.block()) {
		return fmt.Errorf("%s: SID block differs from the model's", what)
	}
	// blocks handed out earlier must still hold what they held (an encoder that recycles its
	// buffer would overwrite them)
	for i := range retainedBlocks {
		r := &retainedBlocks[i]
		if r.got != nil && !bytes.Equal(r.got, r.want) {
			txt := r.text
			retainedBlocks = [4]retainedBlock{}
			return fmt.Errorf("the SID block returned earlier for %q changed after another set was serialised", txt)
		}
	}
	retainedBlocks[retainedBlockNext%len(retainedBlocks)] = retainedBlock{got: blk, want: m.block(), text: m.text()}
	retainedBlockNext++
	return nil
}

type retainedBlock struct {
	got, want []byte
	text      string
}

var retainedBlocks [4]retainedBlock
var retainedBlockNext int

func checkGTIDSeq(c *GTIDSeqCase) error {
	start := gmodel{}
	for i, ivs := range c.Start {
		if cv := canon(ivs); cv != nil {
			start[c.Pool[i]] = cv
		}
	}
	s0, err := start.build()
	if err != nil {
		return fmt.Errorf("building the start set from its SID block failed: %v", err)
	}
	sets := []replication.GTIDSet{s0}
	models := []gmodel{start}
	verifyAll := func(when string) error {
		for i := range sets {
			if err := checkSetAgainst(sets[i], models[i], fmt.Sprintf("%s: retained set #%d", when, i)); err != nil {
				return err
			}
		}
		return nil
	}
	if err := verifyAll("start"); err != nil {
		return err
	}
	for k, op := range c.Ops {
		on := op.On % len(sets)
		sid := c.Pool[op.SID%len(c.Pool)]
		g := replication.Mysql56GTID{Server: replication.SID(sid), Sequence: op.N}
		had := sets[on].ContainsGTID(g)
		if had != models[on].has(sid, op.N) {
			return fmt.Errorf("step %d: ContainsGTID(%s) = %v on %q", k, g, had, models[on].text())
		}
		res := sets[on].AddGTID(g)
		nm := models[on].add(sid, op.N)
		sets = append(sets, res)
		models = append(models, nm)
		if err := verifyAll(fmt.Sprintf("after step %d (AddGTID(%s) on set #%d)", k, g, on)); err != nil {
			return err
		}
		if !res.ContainsGTID(g) {
			return fmt.Errorf("step %d: the result of AddGTID(%s) does not contain it", k, g)
		}
		if !res.Contains(sets[on]) || res.Equal(sets[on]) != nm.equal(models[on]) {
			return fmt.Errorf("step %d: result %q vs receiver %q: Contains/Equal disagree with the model", k, res, sets[on])
		}
	}
	// all pairs of retained sets
	for i := range sets {
		for j := range sets {
			if got, want := sets[i].Contains(sets[j]), models[i].superset(models[j]); got != want {
				return fmt.Errorf("Contains(%q, %q) = %v, want %v", models[i].text(), models[j].text(), got, want)
			}
			if got, want := sets[i].Equal(sets[j]), models[i].equal(models[j]); got != want {
				return fmt.Errorf("Equal(%q, %q) = %v, want %v", models[i].text(), models[j].text(), got, want)
			}
		}
	}
	return nil
}

func init() {
	registerReplay("c18seq", func(raw json.RawMessage) error {
		var c GTIDSeqCase
		if err := json.Unmarshal(raw, &c); err != nil {
			return err
		}
		return checkGTIDSeq(&c)
	})
}

func drawIntervals(rt *rapid.T, wide bool, shift int64) [][2]int64 {
	var ivs [][2]int64
	n := rapid.IntRange(0, 4).Draw(rt, "nintervals")
	for i := 0; i < n; i++ {
		var a, l int64
		if wide {
			a = rapid.SampledFrom([]int64{1, 2, 10, 1 << 31, 1 << 32, math.MaxInt64 - 20, math.MaxInt64 - 1, math.MaxInt64}).Draw(rt, "iv_start")
			if rapid.Bool().Draw(rt, "iv_rnd") {
				a = rapid.Int64Range(1, math.MaxInt64).Draw(rt, "iv_start_rnd")
			}
			l = rapid.SampledFrom([]int64{0, 1, 5, 1 << 40}).Draw(rt, "iv_len")
		} else {
			a = shift + rapid.Int64Range(1, 14).Draw(rt, "iv_start")
			l = rapid.Int64Range(0, 3).Draw(rt, "iv_len")
		}
		b := a + l
		if b < a {
			b = math.MaxInt64
		}
		ivs = append(ivs, [2]int64{a, b})
	}
	return ivs
}

func TestC18(t *testing.T) {
	rec := recorder("C18")
	defer rec.Flush(t)
	sid := [16]byte{0xde, 0xad, 0xbe, 0xef, 1, 2, 3, 4, 5, 6, 7, 8, 9, 10, 11, 12}
	// exhaustive window of 8: all subsets, all ordered pairs, all (set, gtid)
	lo, hi := shardRange(256)
	failed := false
	var sets [256]replication.Mysql56GTIDSet
	var models [256]gmodel
	const base = 3
	for a := 0; a < 256 && !failed; a++ {
		models[a] = maskModel(sid, a, base)
		s, err := models[a].build()
		if err == nil {
			err = checkSetAgainst(s, models[a], fmt.Sprintf("subset %#02x", a))
		}
		if err != nil {
			failed = true
			p := rec.Violation("c18seq", GTIDSeqCase{Pool: [][16]byte{sid}, Start: map[int][][2]int64{0: models[a][sid]}}, "", err)
			t.Errorf("C18 violation: %v (replay %s)", err, p)
		}
		sets[a] = s
	}
	pairs, adds := int64(0), int64(0)
	for a := int(lo); a < int(hi) && !failed; a++ {
		for b := 0; b < 256 && !failed; b++ {
			pairs++
			gc, ge := sets[a].Contains(sets[b]), sets[a].Equal(sets[b])
			if gc != (a&b == b) || ge != (a == b) {
				failed = true
				err := fmt.Errorf("window sets %q and %q: Contains = %v (want %v), Equal = %v (want %v)", models[a].text(), models[b].text(), gc, a&b == b, ge, a == b)
				p := rec.Violation("c18seq", GTIDSeqCase{Pool: [][16]byte{sid}, Start: map[int][][2]int64{0: models[a][sid]}}, "", err)
				t.Errorf("C18 violation: %v (replay %s)", err, p)
			}
		}
		// every GTID in and around the window (sequence numbers base-2 .. base+9, >= 1)
		for n := int64(base - 2); n <= base+9 && !failed; n++ {
			adds++
			c := GTIDSeqCase{Pool: [][16]byte{sid}, Start: map[int][][2]int64{0: models[a][sid]}, Ops: []GTIDOp{{SID: 0, N: n, On: 0}}}
			if err := checkGTIDSeq(&c); err != nil {
				failed = true
				p := rec.Violation("c18seq", c, "", err)
				t.Errorf("C18 violation: %v (replay %s)", err, p)
			}
		}
	}
	rec.Enumerate(pairs, "window8/ordered-pairs")
	rec.Enumerate(adds, "window8/set-x-gtid")
	rec.MarkExhaustive("one UUID, window of 8 sequence numbers: all 256 subsets, all 65,536 ordered pairs for Contains / Equal, all (set, gtid) for ContainsGTID / AddGTID")
	rec.Sample(map[string]interface{}{"set": maskModel(sid, 0xB5, base).text(), "add": "…:6", "expect": maskModel(sid, 0xBD, base).text()})
	if failed {
		return
	}
	// the empty set has two representations a caller can hold: the zero value (a nil map) and the allocated
	// one the parser returns for ""; as sets they are the same
	if envShard == 0 {
		var zero replication.Mysql56GTIDSet
		err := guard(func() error {
			parsed, err := replication.VerifParseGTIDSet("MySQL56", "")
			if err != nil {
				return fmt.Errorf("parsing the empty set failed: %v", err)
			}
			g := replication.Mysql56GTID{Server: replication.SID(sid), Sequence: 5}
			one := zero.AddGTID(g)
			switch {
			case !zero.Equal(parsed) || !parsed.Equal(zero):
				return fmt.Errorf("the zero-value empty set and the parsed empty set are not Equal")
			case !zero.Contains(parsed) || !parsed.Contains(zero):
				return fmt.Errorf("the zero-value empty set and the parsed empty set do not contain each other")
			case zero.String() != parsed.String():
				return fmt.Errorf("the zero-value empty set prints %q, the parsed one %q", zero.String(), parsed.String())
			case zero.ContainsGTID(g) || !one.ContainsGTID(g) || !one.Equal(parsed.AddGTID(g)) || len(zero) != 0:
				return fmt.Errorf("AddGTID on the zero-value empty set: result %q, the set itself now %q", one.String(), zero.String())
			}
			return nil
		})
		rec.Case(true, "zero-value-empty-set", "zero-value-empty-set")
		if err != nil {
			rec.Violation("c18zero", "zero-value empty set", "", err)
			t.Errorf("C18 violation: %v", err)
			return
		}
	}

	rapidCheck(t, func(rt *rapid.T) {
		c := &GTIDSeqCase{Start: map[int][][2]int64{}}
		np := rapid.IntRange(1, 4).Draw(rt, "nuuids")
		for i := 0; i < np; i++ {
			var s [16]byte
			copy(s[:], rapid.SliceOfN(rapid.Byte(), 16, 16).Draw(rt, "uuid"))
			if i > 0 && rapid.Bool().Draw(rt, "uuid_near") {
				s = c.Pool[0]
				s[rapid.IntRange(0, 15).Draw(rt, "uuid_byte")] ^= byte(rapid.IntRange(1, 255).Draw(rt, "uuid_xor"))
			}
			c.Pool = append(c.Pool, s)
		}
		wide := rapid.IntRange(0, 2).Draw(rt, "wide") == 0
		// the dense window (intervals that touch, overlap and leave one-transaction gaps) also sits high up
		// in the number range: past 2^24, 2^31, 2^32, 2^53 (where float64 stops being exact) and below 2^63
		shift := int64(0)
		if !wide && rapid.IntRange(0, 2).Draw(rt, "shifted") == 0 {
			shift = rapid.SampledFrom([]int64{1 << 24, 1<<31 - 8, 1<<32 - 8, 1<<53 - 8, 1<<53 + 1<<20 + 1, 1<<62 - 9, math.MaxInt64 - 40}).Draw(rt, "shift")
		}
		for i := range c.Pool {
			if rapid.Bool().Draw(rt, "start_has") {
				c.Start[i] = drawIntervals(rt, wide, shift)
			}
		}
		// many intervals for one server: 9-40 short intervals separated by gaps of one or two, and operations
		// that land on their first and last numbers, inside them and in the gaps
		many := 0
		if !wide && rapid.IntRange(0, 5).Draw(rt, "many_intervals") == 0 {
			many = rapid.IntRange(9, 40).Draw(rt, "many_n")
			if shift > math.MaxInt64-260 {
				shift = math.MaxInt64 - 260 // room for 40 intervals and the operations around them
			}
			var ivs [][2]int64
			at := shift + 1
			for i := 0; i < many; i++ {
				at += int64(rapid.IntRange(0, 1).Draw(rt, "many_gap"))
				l := int64(rapid.IntRange(0, 2).Draw(rt, "many_len"))
				ivs = append(ivs, [2]int64{at, at + l})
				at += l + 2
			}
			c.Start[0] = ivs
		}
		nops := rapid.IntRange(1, 12).Draw(rt, "nops")
		for i := 0; i < nops; i++ {
			op := GTIDOp{SID: rapid.IntRange(0, np-1).Draw(rt, "op_sid"), On: rapid.IntRange(0, i).Draw(rt, "op_on")}
			if wide {
				op.N = rapid.SampledFrom([]int64{1, 2, 9, 11, 1<<31 - 1, 1 << 31, 1<<32 + 1, math.MaxInt64 - 21, math.MaxInt64 - 2, math.MaxInt64}).Draw(rt, "op_n")
			} else {
				op.N = shift + rapid.Int64Range(1, 18).Draw(rt, "op_n")
				if many > 0 && op.SID == 0 {
					op.N = shift + rapid.Int64Range(1, int64(5*many+4)).Draw(rt, "op_n_many")
				}
			}
			if rapid.IntRange(0, 1).Draw(rt, "op_latest") == 0 {
				op.On = i // mostly build on the latest set
			}
			c.Ops = append(c.Ops, op)
		}
		cls := []string{fmt.Sprintf("uuids=%d", np)}
		if wide {
			cls = append(cls, "wide-intervals")
		}
		if shift != 0 {
			cls = append(cls, "dense-window-at-large-base")
		}
		if many > 0 {
			cls = append(cls, "server-with-9-to-40-intervals")
		}
		rec.Case(true, c, cls...)
		rec.Sample(c)
		if err := checkGTIDSeq(c); err != nil {
			rec.Violation("c18seq", c, "", err)
			rt.Fatalf("C18 violation: %v", err)
		}
	})
}

// FuzzC18 is the native coverage-guided supplement of the generated part (thorough tier only).
func FuzzC18(f *testing.F) { fuzzProperty(f, TestC18) }
