package props

import (
	"context"
	"encoding/binary"
	"errors"
	"fmt"
	"io"
	"net"
	"sync/atomic"
	"time"

	"github.com/Breeze0806/gobinlog"
	"pgregory.net/rapid"

	"verif/fakemaster"
	"verif/hist"
	"verif/refenc"
)

// Fault is one way of ending a stream attempt.
type Fault struct {
	Kind string
	// At: packet index (master-side kinds, cancel_out), handler call number
	// (handler_err, cancel_in; 1-based) or mapper call number (mapper_err, mapper_cols; 1-based)
	At      int
	Sub     int    `json:",omitempty"` // variant selector
	ErrCode uint16 `json:",omitempty"`
	State   bool   `json:",omitempty"` // ERR packet carries a #sqlstate marker
	Msg     string `json:",omitempty"`
}

// Master-side fault kinds (they rewrite the dump script at packet index At).
var masterFaults = []string{"fin", "rst", "short", "outofseq", "err", "eof", "invalid", "unsupported", "undecodable"}

// Replica-side fault kinds.
var clientFaults = []string{"cancel_out", "cancel_in", "cancel_busy", "deadline_in", "cancel_log", "handler_err", "handler_err_cancel", "mapper_err", "mapper_cols"}

// Connect-phase fault kinds.
var connectFaults = []string{"refuse", "err_handshake", "err_query", "cancel_handshake"}

func isMasterFault(k string) bool {
	for _, m := range masterFaults {
		if m == k {
			return true
		}
	}
	return false
}

// badClasses is the number of classes badBytes knows.
const badClasses = 10

// badBytes returns a packet body (without the 0x00 marker) that fails the
// validity gate, derived from a real event.
func badBytes(real []byte, sub int) []byte {
	switch sub % badClasses {
	case 8: // a complete event behind two bytes of another layer's framing (the semi-sync header: 0xef, flag)
		return append([]byte{0xef, byte(sub / badClasses & 1)}, real...)
	case 9: // a complete event behind a stray byte (a second OK marker)
		return append([]byte{0x00}, real...)
	case 6: // over-long by exactly a checksum's worth
		return append(append([]byte{}, real...), 1, 2, 3, 4)
	case 7: // over-long by one byte
		return append(append([]byte{}, real...), 0)
	case 0: // truncated in the body
		return append([]byte{}, real[:len(real)-1]...)
	case 1: // truncated inside the header
		return append([]byte{}, real[:10]...)
	case 2: // over-long
		return append(append([]byte{}, real...), 0xAA, 0xBB)
	case 3: // empty
		return []byte{}
	case 4: // length field says less than the header
		b := append([]byte{}, real...)
		binary.LittleEndian.PutUint32(b[9:], 5)
		return b
	default: // garbage
		b := make([]byte, 24)
		for i := range b {
			b[i] = 0xff
		}
		return b
	}
}

// hostileEvent builds a well-framed event (passes the validity gate) that the
// replica must refuse: unsupported types, or bodies it cannot decode.
func hostileEvent(h *hist.History, kind string, sub int, pos uint32, crc bool) []byte {
	hd := func(typ byte) refenc.Header {
		return refenc.Header{Timestamp: 1234, Type: typ, ServerID: h.Cfg.ServerID, LogPos: pos}
	}
	if kind == "unsupported" {
		switch sub % 3 {
		case 0:
			return refenc.BuildEvent(hd(refenc.EvRowsQuery), refenc.RowsQueryBody("INSERT INTO t VALUES (1)"), crc)
		case 1:
			return refenc.BuildEvent(hd(refenc.EvIntVar), refenc.IntVarBody(2, 77), crc)
		default:
			return refenc.BuildEvent(hd(refenc.EvRand), refenc.RandBody(1, 2), crc)
		}
	}
	switch sub % 6 {
	case 0: // format description of binlog version 3
		body := refenc.FDEBody(3, h.Cfg.ServerVersion, 1, 19, refenc.StdHeaderSizes(h.Cfg.NHeaderSizes, h.Cfg.TableIDBytes), 0)
		return refenc.BuildEvent(hd(refenc.EvFormatDesc), body, true)
	case 1: // query whose database length overruns the event
		body := refenc.QueryBody(1, 0, 0, nil, "db", "BEGIN")
		body[8] = 250
		return refenc.BuildEvent(hd(refenc.EvQuery), body, crc)
	case 2: // rotate shorter than its fixed part
		return refenc.BuildEvent(hd(refenc.EvRotate), []byte{1, 2, 3}, crc)
	case 3: // table map with a column type nobody knows
		body := refenc.TableMapBody(h.Cfg.TableIDBytes, 999, 1, "d", "t", []byte{200}, nil, []bool{false}, nil)
		return refenc.BuildEvent(hd(refenc.EvTableMap), body, crc)
	case 4: // format description announcing an unknown checksum algorithm, then any event
		body := refenc.FDEBody(4, h.Cfg.ServerVersion, 1, 19, refenc.StdHeaderSizes(h.Cfg.NHeaderSizes, h.Cfg.TableIDBytes), 7)
		return refenc.BuildEvent(hd(refenc.EvFormatDesc), body, true)
	default: // rows for a table id that was never announced
		typ := hist.RowsEventType(0, h.Cfg.RowsV2)
		body := refenc.RowsBody(h.Cfg.TableIDBytes, 424242, 1, h.Cfg.RowsV2, nil, 1, []bool{true}, nil, [][]byte{{0, 1}})
		return refenc.BuildEvent(hd(typ), body, crc)
	}
}

// applyFault rewrites the fault-free script for a master-side fault.
func applyFault(l *hist.Layout, f Fault) func([]fakemaster.Step, []int) []fakemaster.Step {
	return func(steps []fakemaster.Step, evIdx []int) []fakemaster.Step {
		i := f.At
		if i > len(steps)-1 {
			i = len(steps) - 1 // at the latest, instead of the final EOF
		}
		if i < 0 {
			i = 0
		}
		head := append([]fakemaster.Step{}, steps[:i]...)
		rest := steps[i:]
		lastReal := l.H.FDEBytes(0)
		// the checksum setting in force at the injection point is that of the file whose format
		// description was sent last (a well-formed injected event must be framed like its neighbours)
		crc := l.H.Cfg.Checksum
		if i > 0 {
			crc = l.CRC[steps[i-1].Aux]
		} else if len(steps) > 0 {
			crc = l.CRC[steps[0].Aux]
		}
		for j := i; j >= 0 && j < len(evIdx); j-- {
			if evIdx[j] >= 0 {
				lastReal = l.Events[evIdx[j]].Bytes
				break
			}
		}
		pos := uint32(0)
		switch f.Kind {
		case "fin":
			return append(head, fakemaster.Step{Raw: []byte{}, Then: fakemaster.CloseFIN, Tag: -9})
		case "rst":
			return append(head, fakemaster.Step{Raw: []byte{}, Then: fakemaster.CloseRST, Tag: -9})
		case "short":
			p := rest[0].Payload
			n := len(p) / 2
			if f.Sub%2 == 1 {
				n = 0
			}
			return append(head, fakemaster.Step{Payload: p, Short: n + 1, Then: fakemaster.CloseFIN, Tag: -9})
		case "outofseq":
			s := rest[0]
			s.SeqSkew = []int{1, 3, -1, 100}[f.Sub%4]
			s.Tag = -9
			return append(append(head, s), rest[1:]...)
		case "err":
			st := ""
			if f.State {
				st = "HY000"
			}
			return append(head, fakemaster.Step{Payload: fakemaster.ErrPacket(f.ErrCode, st, f.Msg), Then: fakemaster.Hold, Tag: -9})
		case "eof":
			return append(head, fakemaster.Step{Payload: fakemaster.EOFPacket(), Then: fakemaster.Hold, Tag: -9})
		case "invalid":
			return append(append(head, fakemaster.Step{Payload: fakemaster.EventPacket(badBytes(lastReal, f.Sub)), Tag: -9}), rest...)
		case "unsupported", "undecodable":
			out := append(head, fakemaster.Step{Payload: fakemaster.EventPacket(hostileEvent(l.H, f.Kind, f.Sub, pos, crc)), Tag: -9})
			if f.Kind == "undecodable" && f.Sub%6 == 4 {
				// the unknown checksum algorithm only bites on the next event
				out = append(out, fakemaster.Step{Payload: fakemaster.EventPacket(hostileEvent(l.H, "unsupported", 1, pos, crc)), Tag: -9})
			}
			return append(out, rest...)
		}
		return steps
	}
}

// acceptedBefore counts the commit events carried by steps[:n].
func commitsIn(l *hist.Layout, evIdx []int, n int) int {
	c := 0
	for i := 0; i < n && i < len(evIdx); i++ {
		if evIdx[i] >= 0 && l.Events[evIdx[i]].Commit {
			c++
		}
	}
	return c
}

// AttemptSpec is one attempt of a multi-attempt scenario.
type AttemptSpec struct {
	Fault  Fault
	Pacing int
	// Seek > 0: before this attempt the caller repositions the streamer with SetBinlogPosition to the end
	// label of its (Seek-1)-th accepted transaction (Seek = 1: the start position), clamped to what has been
	// accepted; the attempt must ask for exactly that position and deliver the history from there
	Seek int `json:",omitempty"`
}

// FaultCase is a C04 scenario: failing attempts followed by a clean one.
type FaultCase struct {
	H        *hist.History
	StartIdx int
	Attempts []AttemptSpec
	// FinalSeek: AttemptSpec.Seek of the final, fault-free attempt
	FinalSeek int `json:",omitempty"`
}

var errInjected = errors.New("injected handler failure")

// handlerErrors are the values an injected handler failure may carry: a handler can fail with
// anything, including errors that look like "clean end" sentinels elsewhere.
var handlerErrors = []error{errInjected, io.EOF, context.Canceled, io.ErrUnexpectedEOF, context.DeadlineExceeded, errors.New(""), tempErr{}, &net.OpError{Op: "write", Net: "tcp", Err: tempErr{}}}

// tempErr is a handler failure that calls itself temporary and a timeout, as a sink's net.Error does.
type tempErr struct{}

func (tempErr) Error() string   { return "sink: i/o timeout" }
func (tempErr) Temporary() bool { return true }
func (tempErr) Timeout() bool   { return true }

func handlerErr(f Fault) error {
	if f.Sub < 0 {
		return errInjected
	}
	return handlerErrors[f.Sub%len(handlerErrors)]
}

// drawFault draws a fault for a history whose fault-free script from the given
// position has nsteps packets, ntx deliveries and nmaps distinct table maps.
// masterErrCodes: the error numbers a server really puts into the ERR packet that ends a dump (fatal
// replication error, access denied, lost connection, the three shutdown notices 1053 / 1077 / 1079, killed
// connection / interrupted query, aborted connection, net errors, out of resources, unknown error, the
// MariaDB kill notice), the extremes, and 0 = any other number.  None of them is an end of file: whatever
// the number says, the master's error is the reason the stream ended.
var masterErrCodes = []int{1, 1236, 1045, 2013, 65535, 0, 1053, 1077, 1079, 1317, 1152, 1159, 1160, 1161, 1041, 1105, 1927, 1040, 1094, 1080}

func drawFault(rt *rapid.T, kinds []string, nsteps, ntx int) Fault {
	f := Fault{Kind: rapid.SampledFrom(kinds).Draw(rt, "fault_kind")}
	switch {
	case isMasterFault(f.Kind):
		lo := 0
		if f.Kind == "invalid" || f.Kind == "unsupported" || f.Kind == "undecodable" {
			lo = 2 // after the artificial rotate and the format description
		}
		if lo > nsteps-1 {
			lo = nsteps - 1
		}
		f.At = rapid.IntRange(lo, nsteps-1).Draw(rt, "fault_at")
		f.Sub = rapid.IntRange(0, 11).Draw(rt, "fault_sub")
		if f.Kind == "err" {
			f.ErrCode = uint16(rapid.SampledFrom(masterErrCodes).Draw(rt, "err_code"))
			if f.ErrCode == 0 {
				f.ErrCode = uint16(rapid.IntRange(1, 65535).Draw(rt, "err_code_rnd"))
			}
			f.State = rapid.Bool().Draw(rt, "err_state")
			f.Msg = rapid.SampledFrom([]string{"Could not find first log file name in binary log index file", "A slave with the same server_uuid/server_id as this slave has connected to the master",
				"x", "日志错误 ünïcödé", "msg with \x05\x00\x00\x01 bytes", "log event entry exceeded max_allowed_packet; Increase max_allowed_packet on master", "Server shutdown in progress"}).Draw(rt, "err_msg")
		}
	case f.Kind == "cancel_out":
		f.At = rapid.IntRange(0, nsteps).Draw(rt, "cancel_at")
	case f.Kind == "cancel_in" || f.Kind == "cancel_busy" || f.Kind == "handler_err" || f.Kind == "handler_err_cancel" || f.Kind == "deadline_in" || f.Kind == "handler_panic":
		f.At = rapid.IntRange(1, max(1, ntx)).Draw(rt, "call_at")
		f.Sub = rapid.IntRange(0, len(handlerErrors)-1).Draw(rt, "handler_err_value")
	case f.Kind == "cancel_log":
		// the context is cancelled at the At-th log call made on the Stream goroutine: a cancellation
		// between any two steps of the parser (e.g. after it took a commit event, before the hand-over)
		f.At = rapid.IntRange(1, 3*nsteps+4).Draw(rt, "log_call_at")
	case f.Kind == "err_handshake" || f.Kind == "err_query" || f.Kind == "dump_write_fails":
	default:
		f.At = rapid.IntRange(1, 2).Draw(rt, "mapper_at")
		f.Sub = rapid.SampledFrom([]int{-1, 1, -100, 3}).Draw(rt, "col_delta")
	}
	return f
}

func max(a, b int) int {
	if a > b {
		return a
	}
	return b
}

// faultAttempt prepares the attempt (script mutation, handler, context) that
// realises the fault.  The returned cleanup must be called after the run.
func faultAttempt(ss *session, l *hist.Layout, spec AttemptSpec) (attempt, func()) {
	f := spec.Fault
	at := attempt{l: l, pacing: spec.Pacing}
	cleanup := func() {}
	switch {
	case f.Kind == "none":
	case f.Kind == "err_handshake":
		at.plan = &fakemaster.ConnPlan{HandshakeErr: fakemaster.ErrPacket(1040, "08004", "Too many connections")}
	case f.Kind == "err_query":
		at.plan = &fakemaster.ConnPlan{QueryErr: fakemaster.ErrPacket(1227, "42000", "Access denied; you need (at least one of) the SUPER privilege(s) for this operation")}
	case f.Kind == "dump_write_fails":
		cleanup = failDumpWrite()
	case isMasterFault(f.Kind):
		at.mutate = applyFault(l, f)
	case f.Kind == "cancel_out":
		ctx, cancel := context.WithCancel(context.Background())
		at.ctx = ctx
		cleanup = cancel
		plan := &fakemaster.ConnPlan{}
		at.plan = plan
		var stp atomic.Value
		plan.Gate = func(i int, s *fakemaster.Step) bool {
			if st, ok := stp.Load().(*attemptState); ok && spec.Pacing == PaceLockStep && i > 0 {
				st.waitQuiescent(2 * time.Second)
			}
			if i == f.At {
				cancel()
			}
			return true
		}
		at.onState = func(st *attemptState) { stp.Store(st) }
	case f.Kind == "cancel_in":
		ctx, cancel := context.WithCancel(context.Background())
		at.ctx = ctx
		cleanup = cancel
		n := 0
		at.handler = func(tx *gobinlog.Transaction, st *attemptState) error {
			n++
			if n == f.At {
				cancel()
			}
			return nil
		}
	case f.Kind == "deadline_in":
		// the caller's context carries a deadline, which passes while the At-th handler call is in progress;
		// the handler then finishes and ACCEPTS the transaction
		ctx, cancel := context.WithTimeout(context.Background(), 15*time.Millisecond)
		at.ctx = ctx
		cleanup = cancel
		n := 0
		at.handler = func(tx *gobinlog.Transaction, st *attemptState) error {
			n++
			if n == f.At {
				<-ctx.Done()
			}
			return nil
		}
	case f.Kind == "cancel_busy":
		// the context is cancelled from outside while a handler call is in progress; the handler
		// then finishes and ACCEPTS the transaction
		ctx, cancel := context.WithCancel(context.Background())
		at.ctx = ctx
		cleanup = cancel
		n := 0
		at.handler = func(tx *gobinlog.Transaction, st *attemptState) error {
			n++
			if n == f.At {
				go func() {
					time.Sleep(200 * time.Microsecond)
					cancel()
				}()
				time.Sleep(3 * time.Millisecond)
			}
			return nil
		}
	case f.Kind == "cancel_log":
		ctx, cancel := context.WithCancel(context.Background())
		at.ctx = ctx
		var n int32
		logHook.Store(func(reader bool) {
			if !reader && atomic.AddInt32(&n, 1) == int32(f.At) {
				cancel()
			}
		})
		cleanup = func() { logHook.Store(func(bool) {}); cancel() }
	case f.Kind == "handler_err_cancel":
		// the handler cancels the caller's context and THEN reports its failure
		ctx, cancel := context.WithCancel(context.Background())
		at.ctx = ctx
		cleanup = cancel
		n := 0
		at.handler = func(tx *gobinlog.Transaction, st *attemptState) error {
			n++
			if n == f.At {
				cancel()
				return handlerErr(f)
			}
			return nil
		}
	case f.Kind == "handler_err":
		n := 0
		at.handler = func(tx *gobinlog.Transaction, st *attemptState) error {
			n++
			if n == f.At {
				return handlerErr(f)
			}
			return nil
		}
	case f.Kind == "mapper_err":
		ss.mp.mu.Lock()
		ss.mp.failAt, ss.mp.failErr, ss.mp.failFull = ss.mp.ncalls+f.At, fmt.Errorf("injected mapper failure"), f.Sub > 0
		ss.mp.mu.Unlock()
		cleanup = func() { ss.mp.mu.Lock(); ss.mp.failAt = 0; ss.mp.mu.Unlock() }
	case f.Kind == "mapper_cols":
		ss.mp.mu.Lock()
		ss.mp.deltaAt, ss.mp.delta = ss.mp.ncalls+f.At, f.Sub
		ss.mp.mu.Unlock()
		cleanup = func() { ss.mp.mu.Lock(); ss.mp.deltaAt = 0; ss.mp.mu.Unlock() }
	}
	return at, cleanup
}

// oldFileEnd is the end of the file a rotation / file-end unit closes.
func oldFileEnd(l *hist.Layout, u int) hist.Pos {
	p := l.UnitStart[u]
	for _, e := range l.Events {
		if e.Unit == u && !e.Virtual {
			p = hist.Pos{File: l.Files[e.File], Off: e.End}
		}
	}
	return p
}

// resumedLabels is exp with the start label of its first transaction replaced by what a stream that was
// asked to start at req labels it with: the start position itself when no rotation lies between it and the
// transaction (C03: "the previous transaction's end label, or the initial position, or the target of an
// intervening log rotation").  It only differs from exp when the streamer resumed at an allowed point other
// than the commit boundary (a unit boundary between two transactions).
func resumedLabels(l *hist.Layout, exp []hist.ExpTx, req hist.Pos) []hist.ExpTx {
	if len(exp) == 0 || exp[0].Now == req {
		return exp
	}
	u, ok := l.UnitAt(req)
	if !ok || u > exp[0].Unit {
		return exp
	}
	e2 := l.Expected(req, u)
	if len(e2) == 0 || e2[0].Unit != exp[0].Unit {
		return exp
	}
	out := append([]hist.ExpTx{}, exp...)
	out[0].Now = e2[0].Now
	return out
}

// allowedResume lists the coordinates a next attempt may ask for when `a`
// transactions of exp have been accepted: the end label of the last accepted
// one, or any unit boundary up to (and including) the start of the next
// commit-producing unit, with rotation targets.
func allowedResume(l *hist.Layout, exp []hist.ExpTx, a int, start hist.Pos, startUnit int) map[hist.Pos]bool {
	ok := map[hist.Pos]bool{}
	first := startUnit
	if a > 0 {
		ok[exp[a-1].Next] = true
		first = exp[a-1].Unit + 1
	} else {
		ok[start] = true
	}
	last := len(l.H.Units)
	if a < len(exp) {
		last = exp[a].Unit
	}
	for u := first; u <= last && u <= len(l.H.Units); u++ {
		if u < len(l.H.Units) {
			if l.H.Units[u].Kind != hist.UHeartbeat {
				ok[l.UnitStart[u]] = true
			}
			if u < last && (l.H.Units[u].Kind == hist.URotate || l.H.Units[u].Kind == hist.UFileEnd) {
				ok[hist.Pos{File: l.H.Units[u].NextFile, Off: 4}] = true
				// ... and the end of the file that is left (behind its STOP or ROTATE event): a dump asked
				// for there is continued by the master in the next file like one asked for at its start
				ok[oldFileEnd(l, u)] = true
			}
		} else if n := len(l.UnitEnd); n > 0 {
			ok[l.UnitEnd[n-1]] = true
		}
	}
	return ok
}
