//go:build verif

package props

import (
	"encoding/hex"
	"encoding/json"
	"fmt"
	"math"
	"reflect"
	"strings"
	"sync"
	"testing"

	"github.com/Breeze0806/gobinlog/replication"
	"pgregory.net/rapid"

	"verif/hist"
	"verif/refenc"
)

// GTIDCase covers the single-GTID and set round trips and the event decoders.
type GTIDCase struct {
	Kind string // "gtid56", "maria", "set56", "typed56", "mariaset", "event56", "prev56", "mariaevent"
	SID  [16]byte
	Seq  uint64
	Dom  uint32
	Srv  uint32
	// sets
	Pool  [][16]byte
	Start map[int][][2]int64
	MSet  [][3]uint64 // domain, server, sequence
	// events
	Checksum bool
	V57      bool
	Flags    byte
	Hdr      refenc.Header
}

func roundTripGTID(g replication.GTID, flavor string) error {
	p, err := replication.ParseGTID(flavor, g.String())
	if err != nil {
		return fmt.Errorf("ParseGTID(%q, %q) failed: %v", flavor, g.String(), err)
	}
	if p != g {
		return fmt.Errorf("ParseGTID(%q, %q) = %v, want %v", flavor, g.String(), p, g)
	}
	if g.Flavor() != flavor {
		return fmt.Errorf("Flavor() = %q, want %q", g.Flavor(), flavor)
	}
	enc := replication.EncodeGTID(g)
	d, err := replication.DecodeGTID(enc)
	if err != nil {
		return fmt.Errorf("DecodeGTID(%q) failed: %v", enc, err)
	}
	if d != g {
		return fmt.Errorf("DecodeGTID(EncodeGTID(%v)) = %v", g, d)
	}
	one := g.GTIDSet()
	if !one.ContainsGTID(g) {
		return fmt.Errorf("%v.GTIDSet() does not contain it", g)
	}
	// the generic accessors of the value that came back report the identifier's components
	switch v := g.(type) {
	case replication.Mysql56GTID:
		if p.SequenceDomain() != nil || p.SourceServer() != interface{}(v.Server) || p.SequenceNumber() != interface{}(v.Sequence) {
			return fmt.Errorf("accessors of the parsed %v: domain %v server %v sequence %v", g, p.SequenceDomain(), p.SourceServer(), p.SequenceNumber())
		}
	case replication.MariadbGTID:
		if p.SequenceDomain() != interface{}(v.Domain) || p.SourceServer() != interface{}(v.Server) || p.SequenceNumber() != interface{}(v.Sequence) {
			return fmt.Errorf("accessors of the parsed %v: domain %v server %v sequence %v", g, p.SequenceDomain(), p.SourceServer(), p.SequenceNumber())
		}
	}
	return nil
}

func checkGTIDCase(c *GTIDCase) error {
	switch c.Kind {
	case "gtid56":
		return guard(func() error {
			return roundTripGTID(replication.Mysql56GTID{Server: replication.SID(c.SID), Sequence: int64(c.Seq)}, "MySQL56")
		})
	case "maria":
		return guard(func() error {
			return roundTripGTID(replication.MariadbGTID{Domain: c.Dom, Server: c.Srv, Sequence: c.Seq}, "MariaDB")
		})
	case "set56":
		return guard(func() error {
			m := gmodel{}
			for i, ivs := range c.Start {
				if cv := canon(ivs); cv != nil {
					m[c.Pool[i]] = cv
				}
			}
			s, err := m.build()
			if err != nil {
				return fmt.Errorf("SID block of %q rejected: %v", m.text(), err)
			}
			if err := checkSetAgainst(s, m, "set built from its SID block"); err != nil {
				return err
			}
			back, err := replication.NewMysql56GTIDSetFromSIDBlock(s.SIDBlock())
			if err != nil || !back.Equal(s) || !s.Equal(back) {
				return fmt.Errorf("SIDBlock round trip of %q: %v / %q", m.text(), err, back)
			}
			p, err := replication.VerifParseGTIDSet("MySQL56", s.String())
			if err != nil {
				return fmt.Errorf("parsing the printed set %q failed: %v", s.String(), err)
			}
			if !p.Equal(s) || !s.Equal(p) {
				return fmt.Errorf("parsing the printed set %q gives %q", s.String(), p.String())
			}
			if s.Flavor() != "MySQL56" {
				return fmt.Errorf("set flavor %q", s.Flavor())
			}
			return nil
		})
	case "typed56":
		// the text form as a person (or another tool) writes it: the intervals of a server in any order,
		// overlapping, nested or touching - all of which MySQL accepts.  Whatever representation the parser
		// chooses, the parsed set must hold exactly the union, before and after one more print / parse.
		return guard(func() error {
			m := gmodel{}
			var parts []string
			for i := 0; i < len(c.Pool); i++ {
				ivs := c.Start[i]
				if len(ivs) == 0 {
					continue
				}
				m[c.Pool[i]] = canon(ivs)
				t := sidText(c.Pool[i])
				for _, iv := range ivs {
					if iv[0] == iv[1] {
						t += fmt.Sprintf(":%d", iv[0])
					} else {
						t += fmt.Sprintf(":%d-%d", iv[0], iv[1])
					}
				}
				parts = append(parts, t)
			}
			if len(parts) == 0 {
				return nil
			}
			text := strings.Join(parts, ",")
			p, err := replication.VerifParseGTIDSet("MySQL56", text)
			if err != nil {
				if text != m.text() {
					return nil // a parser may refuse text that is not in the form the server prints; then there is nothing to compare
				}
				return fmt.Errorf("parsing %q failed: %v", text, err)
			}
			again, err := replication.VerifParseGTIDSet("MySQL56", p.String())
			if err != nil {
				return fmt.Errorf("parsing %q, the printed form of %q, failed: %v", p.String(), text, err)
			}
			for sid, ivs := range m {
				for _, iv := range ivs {
					for _, n := range []int64{iv[0] - 1, iv[0], (iv[0] + iv[1]) / 2, iv[1], iv[1] + 1} {
						if n < 1 || (n == iv[1]+1 && iv[1] == math.MaxInt64) {
							continue
						}
						g := replication.Mysql56GTID{Server: replication.SID(sid), Sequence: n}
						if got := p.ContainsGTID(g); got != m.has(sid, n) {
							return fmt.Errorf("the set parsed from %q (it prints %q): ContainsGTID(%d) = %v, the union says %v", text, p.String(), n, got, m.has(sid, n))
						}
						if got := again.ContainsGTID(g); got != m.has(sid, n) {
							return fmt.Errorf("%q parsed, printed (%q) and parsed again: ContainsGTID(%d) = %v, the union says %v", text, p.String(), n, got, m.has(sid, n))
						}
					}
				}
			}
			return nil
		})
	case "mariaset":
		return guard(func() error {
			var s replication.MariadbGTIDSet
			for _, g := range c.MSet {
				s = append(s, replication.MariadbGTID{Domain: uint32(g[0]), Server: uint32(g[1]), Sequence: g[2]})
			}
			p, err := replication.VerifParseGTIDSet("MariaDB", s.String())
			if err != nil {
				return fmt.Errorf("parsing the printed set %q failed: %v", s.String(), err)
			}
			if !p.Equal(s) || !s.Equal(p) {
				return fmt.Errorf("parsing the printed set %q gives %q", s.String(), p.String())
			}
			// printing is a read: the set still lists what it listed, in the order it listed it
			for i, g := range c.MSet {
				if want := (replication.MariadbGTID{Domain: uint32(g[0]), Server: uint32(g[1]), Sequence: g[2]}); i >= len(s) || s[i] != want {
					return fmt.Errorf("after it was printed the set reads %v; it was built from %v", []replication.MariadbGTID(s), c.MSet)
				}
			}
			return nil
		})
	case "event56":
		return guard(func() error {
			cfg := hist.Cfg{Checksum: c.Checksum, TableIDBytes: 6, NHeaderSizes: 40}
			f := libFormat(cfg)
			hd := c.Hdr
			hd.Type = refenc.EvGTID
			ev, err := stripped(refenc.BuildEvent(hd, refenc.GTIDBody(c.Flags, c.SID, int64(c.Seq), c.V57, 5, 6), c.Checksum), f)
			if err != nil {
				return err
			}
			if !ev.IsGTID() {
				return fmt.Errorf("IsGTID() = false for a GTID event")
			}
			g, _, err := ev.GTID(f)
			if err != nil {
				return fmt.Errorf("GTID() failed: %v", err)
			}
			want := replication.Mysql56GTID{Server: replication.SID(c.SID), Sequence: int64(c.Seq)}
			if g != want {
				return fmt.Errorf("GTID event decoded as %v, the master wrote %v", g, want)
			}
			return nil
		})
	case "prev56":
		return guard(func() error {
			cfg := hist.Cfg{Checksum: c.Checksum, TableIDBytes: 6, NHeaderSizes: 40}
			f := libFormat(cfg)
			m := gmodel{}
			for i, ivs := range c.Start {
				if cv := canon(ivs); cv != nil {
					m[c.Pool[i]] = cv
				}
			}
			hd := c.Hdr
			hd.Type = refenc.EvPreviousGTIDs
			ev, err := stripped(refenc.BuildEvent(hd, m.block(), c.Checksum), f)
			if err != nil {
				return err
			}
			if !ev.IsPreviousGTIDs() {
				return fmt.Errorf("IsPreviousGTIDs() = false")
			}
			set, err := ev.PreviousGTIDs(f)
			if err != nil {
				return fmt.Errorf("PreviousGTIDs() failed on %q: %v", m.text(), err)
			}
			if err := checkSetAgainst(set, m, "previous-GTIDs event"); err != nil {
				return err
			}
			// the decoded set must stay what the master wrote when GTIDs are added to it afterwards
			for i, sid := range m.sids() {
				g := replication.Mysql56GTID{Server: replication.SID(sid), Sequence: int64(c.Seq%1000) + int64(i) + 1}
				set.AddGTID(g)
				if len(m[sid]) > 0 && m[sid][len(m[sid])-1][1] < 1<<62 {
					set.AddGTID(replication.Mysql56GTID{Server: replication.SID(sid), Sequence: m[sid][len(m[sid])-1][1] + 5})
				}
			}
			return checkSetAgainst(set, m, "previous-GTIDs event after AddGTID calls on the decoded set")
		})
	case "mariaevent":
		return guard(func() error {
			alg := byte(0)
			if c.Checksum {
				alg = 1
			}
			f := replication.BinlogFormat{FormatVersion: 4, ServerVersion: "10.1", HeaderLength: 19, ChecksumAlgorithm: alg, HeaderSizes: make([]byte, 170)}
			hd := c.Hdr
			hd.Type = 162
			raw := refenc.BuildEvent(hd, refenc.MariaGTIDBody(c.Seq, c.Dom, c.Flags), c.Checksum)
			ev := replication.NewMariadbBinlogEvent(raw)
			if !ev.IsValid() || !ev.IsGTID() {
				return fmt.Errorf("MariaDB GTID event: IsValid/IsGTID false")
			}
			ev, _, err := ev.StripChecksum(f)
			if err != nil {
				return err
			}
			g, begin, err := ev.GTID(f)
			if err != nil {
				return err
			}
			want := replication.MariadbGTID{Domain: c.Dom, Server: hd.ServerID, Sequence: c.Seq}
			if g != want {
				return fmt.Errorf("MariaDB GTID event decoded as %v, the master wrote %v", g, want)
			}
			if begin != (c.Flags&1 == 0) {
				return fmt.Errorf("MariaDB GTID event: begin = %v with flags2 %#x", begin, c.Flags)
			}
			return nil
		})
	}
	return fmt.Errorf("bad kind %q", c.Kind)
}

// MariaOp is one step of the MariaDB set state machine.
type MariaOp struct {
	Dom, Srv uint32
	Seq      uint64
	On       int
}

// MariaSeqCase is a sequence of AddGTID steps on MariaDB sets.
type MariaSeqCase struct {
	Start [][3]uint64
	Ops   []MariaOp
}

type mmodel []replication.MariadbGTID // insertion order, one per domain

func (m mmodel) add(g replication.MariadbGTID) mmodel {
	out := append(mmodel{}, m...)
	for i := range out {
		if out[i].Domain == g.Domain {
			if g.Sequence > out[i].Sequence {
				out[i] = g
			}
			return out
		}
	}
	return append(out, g)
}

func (m mmodel) has(g replication.MariadbGTID) bool {
	for _, x := range m {
		if x.Domain == g.Domain {
			return x.Sequence >= g.Sequence
		}
	}
	return false
}

func checkMariaSeq(c *MariaSeqCase) error {
	return guard(func() error {
		var start replication.MariadbGTIDSet
		var sm mmodel
		for _, g := range c.Start {
			x := replication.MariadbGTID{Domain: uint32(g[0]), Server: uint32(g[1]), Sequence: g[2]}
			dup := false
			for _, y := range sm {
				dup = dup || y.Domain == x.Domain
			}
			if dup {
				continue
			}
			start = append(start, x)
			sm = append(sm, x)
		}
		sets := []replication.GTIDSet{start}
		models := []mmodel{sm}
		verifyAll := func(when string) error {
			for i := range sets {
				ms, ok := sets[i].(replication.MariadbGTIDSet)
				if !ok {
					return fmt.Errorf("%s: retained set #%d is a %T", when, i, sets[i])
				}
				_ = ms.String() // printing is a read: the set is afterwards what it was
				if !reflect.DeepEqual([]replication.MariadbGTID(ms), []replication.MariadbGTID(models[i])) && !(len(ms) == 0 && len(models[i]) == 0) {
					return fmt.Errorf("%s: retained set #%d is now %v, the model says %v (in this order)", when, i, []replication.MariadbGTID(ms), []replication.MariadbGTID(models[i]))
				}
				seen := map[uint32]bool{}
				for _, g := range ms {
					if seen[g.Domain] {
						return fmt.Errorf("%s: set #%d holds two positions for domain %d: %q", when, i, g.Domain, ms.String())
					}
					seen[g.Domain] = true
				}
			}
			return nil
		}
		for k, op := range c.Ops {
			on := op.On % len(sets)
			g := replication.MariadbGTID{Domain: op.Dom, Server: op.Srv, Sequence: op.Seq}
			if got, want := sets[on].ContainsGTID(g), models[on].has(g); got != want {
				return fmt.Errorf("step %d: ContainsGTID(%v) on %q = %v, want %v", k, g, sets[on], got, want)
			}
			res := sets[on].AddGTID(g)
			sets = append(sets, res)
			models = append(models, models[on].add(g))
			if err := verifyAll(fmt.Sprintf("after step %d (AddGTID(%v) on set #%d)", k, g, on)); err != nil {
				return err
			}
			if !res.ContainsGTID(g) || !res.Contains(sets[on]) {
				return fmt.Errorf("step %d: result %q does not contain the added GTID or the receiver", k, res)
			}
		}
		for i := range sets {
			for j := range sets {
				want := true
				for _, g := range models[j] {
					want = want && models[i].has(g)
				}
				if got := sets[i].Contains(sets[j]); got != want {
					return fmt.Errorf("Contains(%q, %q) = %v, want %v", sets[i], sets[j], got, want)
				}
			}
		}
		return nil
	})
}

func init() {
	registerReplay("c19", func(raw json.RawMessage) error {
		var c GTIDCase
		if err := json.Unmarshal(raw, &c); err != nil {
			return err
		}
		return checkGTIDCase(&c)
	})
	registerReplay("c19maria", func(raw json.RawMessage) error {
		var c MariaSeqCase
		if err := json.Unmarshal(raw, &c); err != nil {
			return err
		}
		return checkMariaSeq(&c)
	})
}

// parallelPrintPart: 2-4 goroutines print and parse their own MySQL 5.6 and MariaDB GTIDs at the same time;
// each must get back exactly its own identifiers.
func parallelPrintPart(rt *rapid.T, sid func(*rapid.T) [16]byte, seq func(*rapid.T, string, uint64) uint64, u32 func(*rapid.T, string) uint32) error {
	n := rapid.IntRange(2, 4).Draw(rt, "printers")
	type job struct {
		sid [16]byte
		seq int64
		mg  replication.MariadbGTID
	}
	jobs := make([]job, n)
	for i := range jobs {
		jobs[i].sid = sid(rt)
		jobs[i].seq = int64(seq(rt, "seq", math.MaxInt64))
		jobs[i].mg = replication.MariadbGTID{Domain: u32(rt, "dom"), Server: u32(rt, "srv"), Sequence: seq(rt, "mseq", math.MaxUint64)}
	}
	errs := make([]error, n)
	var wg sync.WaitGroup
	for i := range jobs {
		wg.Add(1)
		go func(i int) {
			defer wg.Done()
			j := jobs[i]
			h := hex.EncodeToString(j.sid[:])
			want := fmt.Sprintf("%s-%s-%s-%s-%s:%d", h[0:8], h[8:12], h[12:16], h[16:20], h[20:32], j.seq)
			g := replication.Mysql56GTID{Server: replication.SID(j.sid), Sequence: j.seq}
			errs[i] = guard(func() error {
				for k := 0; k < 300; k++ {
					if got := g.String(); got != want {
						return fmt.Errorf("printer %d of %d: GTID printed as %q, want %q", i, n, got, want)
					}
					if err := roundTripGTID(g, "MySQL56"); err != nil {
						return fmt.Errorf("printer %d of %d: %v", i, n, err)
					}
					if err := roundTripGTID(j.mg, "MariaDB"); err != nil {
						return fmt.Errorf("printer %d of %d: %v", i, n, err)
					}
				}
				return nil
			})
		}(i)
	}
	wg.Wait()
	for _, e := range errs {
		if e != nil {
			return e
		}
	}
	return nil
}

func TestC19(t *testing.T) {
	rec := recorder("C19")
	defer rec.Flush(t)
	u32 := func(rt *rapid.T, label string) uint32 {
		if rapid.Bool().Draw(rt, label+"_b") {
			return rapid.SampledFrom([]uint32{0, 1, 255, 65536, 1<<31 - 1, 1 << 31, 1<<32 - 1}).Draw(rt, label)
		}
		return rapid.Uint32().Draw(rt, label)
	}
	seq := func(rt *rapid.T, label string, max uint64) uint64 {
		if rapid.Bool().Draw(rt, label+"_b") {
			return rapid.SampledFrom([]uint64{1, 2, 1<<31 - 1, 1 << 31, 1<<32 - 1, 1 << 32, math.MaxInt64 - 1, math.MaxInt64}).Draw(rt, label)
		}
		return rapid.Uint64Range(1, max).Draw(rt, label)
	}
	sid := func(rt *rapid.T) (s [16]byte) {
		switch rapid.IntRange(0, 3).Draw(rt, "sid_k") {
		case 0:
		case 1:
			for i := range s {
				s[i] = 0xff
			}
		default:
			copy(s[:], rapid.SliceOfN(rapid.Byte(), 16, 16).Draw(rt, "sid"))
		}
		return
	}
	rapidCheck(t, func(rt *rapid.T) {
		if rapid.IntRange(0, 39).Draw(rt, "part_parallel") == 0 {
			rec.Case(true, "parallel-printers", "kind/parallel-printers")
			if err := parallelPrintPart(rt, sid, seq, u32); err != nil {
				rec.Violation("c19par", "parallel printers", "", err)
				rt.Fatalf("C19 violation: %v", err)
			}
			return
		}
		kind := rapid.SampledFrom([]string{"gtid56", "maria", "set56", "typed56", "mariaset", "event56", "prev56", "mariaevent", "mariaseq", "mariaseq"}).Draw(rt, "kind")
		if kind == "mariaseq" {
			c := &MariaSeqCase{}
			doms := []uint32{0, 1, 7, 1<<32 - 1}
			for i := rapid.IntRange(0, 3).Draw(rt, "nstart"); i > 0; i-- {
				c.Start = append(c.Start, [3]uint64{uint64(rapid.SampledFrom(doms).Draw(rt, "dom")), uint64(u32(rt, "srv")), rapid.Uint64Range(1, 30).Draw(rt, "seq")})
			}
			for i, n := 0, rapid.IntRange(1, 10).Draw(rt, "nops"); i < n; i++ {
				op := MariaOp{Dom: rapid.SampledFrom(doms).Draw(rt, "op_dom"), Srv: u32(rt, "op_srv"), Seq: rapid.Uint64Range(1, 40).Draw(rt, "op_seq"), On: rapid.IntRange(0, i).Draw(rt, "op_on")}
				if rapid.Bool().Draw(rt, "op_latest") {
					op.On = i
				}
				if rapid.IntRange(0, 5).Draw(rt, "op_big") == 0 {
					op.Seq = rapid.SampledFrom([]uint64{1 << 32, math.MaxInt64, math.MaxUint64}).Draw(rt, "op_seq_big")
				}
				c.Ops = append(c.Ops, op)
			}
			rec.Case(true, c, "kind/mariaseq")
			rec.Sample(c)
			if err := checkMariaSeq(c); err != nil {
				rec.Violation("c19maria", c, "", err)
				rt.Fatalf("C19 violation: %v", err)
			}
			return
		}
		c := &GTIDCase{Kind: kind}
		switch kind {
		case "gtid56":
			c.SID, c.Seq = sid(rt), seq(rt, "seq", math.MaxInt64)
		case "maria":
			c.Dom, c.Srv, c.Seq = u32(rt, "dom"), u32(rt, "srv"), seq(rt, "seq", math.MaxUint64)
			if rapid.IntRange(0, 9).Draw(rt, "seq_max") == 0 {
				c.Seq = math.MaxUint64
			}
		case "set56", "prev56", "typed56":
			c.Start = map[int][][2]int64{}
			for i, n := 0, rapid.IntRange(0, 8).Draw(rt, "nuuids"); i < n; i++ {
				c.Pool = append(c.Pool, sid(rt))
				if i > 0 && c.Pool[i] == c.Pool[i-1] {
					c.Pool[i][15] ^= byte(i)
				}
				c.Start[i] = drawIntervals(rt, rapid.Bool().Draw(rt, "wide"), 0)
			}
			// distinct UUIDs only
			seen := map[[16]byte]bool{}
			for i, s := range c.Pool {
				if seen[s] {
					delete(c.Start, i)
				}
				seen[s] = true
			}
			c.Checksum = rapid.Bool().Draw(rt, "checksum")
			c.Hdr = refenc.Header{Timestamp: u32(rt, "ts"), ServerID: u32(rt, "hdr_srv"), LogPos: u32(rt, "pos")}
		case "mariaset":
			used := map[uint64]bool{}
			for i, n := 0, rapid.IntRange(1, 8).Draw(rt, "nmembers"); i < n; i++ {
				d := uint64(u32(rt, "dom"))
				if used[d] {
					continue
				}
				used[d] = true
				c.MSet = append(c.MSet, [3]uint64{d, uint64(u32(rt, "srv")), seq(rt, "seq", math.MaxUint64)})
			}
		case "event56":
			c.SID, c.Seq, c.V57, c.Checksum = sid(rt), seq(rt, "seq", math.MaxInt64), rapid.Bool().Draw(rt, "v57"), rapid.Bool().Draw(rt, "checksum")
			c.Flags = byte(rapid.IntRange(0, 1).Draw(rt, "commit_flag"))
			c.Hdr = refenc.Header{Timestamp: u32(rt, "ts"), ServerID: u32(rt, "hdr_srv"), LogPos: u32(rt, "pos")}
		case "mariaevent":
			c.Dom, c.Seq, c.Checksum = u32(rt, "dom"), seq(rt, "seq", math.MaxUint64), rapid.Bool().Draw(rt, "checksum")
			c.Flags = byte(rapid.IntRange(0, 255).Draw(rt, "flags2"))
			c.Hdr = refenc.Header{Timestamp: u32(rt, "ts"), ServerID: u32(rt, "hdr_srv"), LogPos: u32(rt, "pos")}
		}
		cls := []string{"kind/" + kind}
		if c.Checksum {
			cls = append(cls, "checksum")
		}
		if c.V57 {
			cls = append(cls, "gtid-5.7-layout")
		}
		rec.Case(true, c, cls...)
		rec.Sample(c)
		if err := checkGTIDCase(c); err != nil {
			rec.Violation("c19", c, "", err)
			rt.Fatalf("C19 violation: %v", err)
		}
	})
}

// FuzzC19 is the native coverage-guided supplement of the generated part (thorough tier only).
func FuzzC19(f *testing.F) { fuzzProperty(f, TestC19) }
