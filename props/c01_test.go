package props

import (
	"encoding/json"
	"fmt"
	"sync"
	"testing"

	"pgregory.net/rapid"

	"verif/fakemaster"
	"verif/gen"
	"verif/hist"
)

// E2ECase is a history served to a fresh Streamer from one of its unit
// boundaries.
type E2ECase struct {
	H        *hist.History
	StartIdx int
	Pacing   int
	ServerID uint32
	// Chop != 0: the master's bytes arrive in pieces of pseudo-random sizes (packet headers and bodies split
	// over several reads of the replica)
	Chop uint32 `json:",omitempty"`
}

func (c *E2ECase) layout() (*hist.Layout, hist.Pos, int, error) {
	l, err := c.H.Lay()
	if err != nil {
		return nil, hist.Pos{}, 0, err
	}
	b := l.Boundaries()
	start := b[c.StartIdx%len(b)]
	su, ok := l.UnitAt(start)
	if !ok {
		return nil, hist.Pos{}, 0, fmt.Errorf("harness: boundary %v is not a unit start", start)
	}
	return l, start, su, nil
}

// runE2E streams the case once and returns the attempt and the expectation.
func runE2E(c *E2ECase) (*attemptState, []hist.ExpTx, *hist.Layout, error) {
	l, start, su, err := c.layout()
	if err != nil {
		return nil, nil, nil, fmt.Errorf("harness: %v", err)
	}
	exp := l.Expected(start, su)
	sid := c.ServerID
	if sid == 0 {
		sid = 4242
	}
	ss, err := newSession(c.H.Tables, sid, start)
	if err != nil {
		return nil, nil, nil, fmt.Errorf("harness: %v", err)
	}
	defer ss.close()
	st := ss.run(attempt{l: l, pacing: c.Pacing, plan: &fakemaster.ConnPlan{Chop: c.Chop}})
	st.drainLib()
	if err := st.panicErr(); err != nil {
		return st, exp, l, err
	}
	if !st.served {
		return st, exp, l, fmt.Errorf("harness: dump request %+v was not servable", st.dumpReq)
	}
	return st, exp, l, nil
}

func checkC01(c *E2ECase) error {
	st, exp, _, err := runE2E(c)
	if err != nil {
		return err
	}
	if err := compareTxs(st.got, exp, true); err != nil {
		return fmt.Errorf("%v [stream err: %v]", err, st.streamErr)
	}
	return nil
}

func histClasses(h *hist.History) []string {
	cls := []string{fmt.Sprintf("checksum=%v", h.Cfg.Checksum), fmt.Sprintf("rowsV2=%v", h.Cfg.RowsV2), fmt.Sprintf("idBytes=%d", h.Cfg.TableIDBytes)}
	gt, rot, partial, big := "gtid=none", false, false, h.Base > 1<<30
	for _, u := range h.Units {
		switch u.Kind {
		case hist.UGTID:
			gt = "gtid=gtid"
		case hist.UAnonGTID:
			gt = "gtid=anonymous"
		case hist.URotate, hist.UFileEnd:
			rot = true
		}
		for _, it := range u.Items {
			for _, r := range it.Rows {
				for _, p := range r.Present1 {
					partial = partial || !p
				}
				for _, p := range r.Present2 {
					partial = partial || !p
				}
			}
		}
	}
	cls = append(cls, gt)
	if rot {
		cls = append(cls, "rotation")
	}
	if partial {
		cls = append(cls, "partial-image")
	}
	if big {
		cls = append(cls, "offset>2^30")
	}
	return cls
}

// nontrivialRows: a delivered transaction contains a rows event with >= 1 row and >= 2 columns.
func nontrivialRows(exp []hist.ExpTx) bool {
	for _, tx := range exp {
		for _, e := range tx.Events {
			for _, img := range append(append([][]hist.ExpCol{}, e.Values...), e.Identifies...) {
				if len(img) >= 2 {
					return true
				}
			}
		}
	}
	return false
}

func init() {
	registerReplay("c01", func(raw json.RawMessage) error {
		var c E2ECase
		if err := json.Unmarshal(raw, &c); err != nil {
			return err
		}
		return checkC01(&c)
	})
}

func drawE2E(rt *rapid.T, o gen.HistOpt) *E2ECase {
	c := &E2ECase{H: gen.History(rt, o)}
	c.StartIdx = rapid.IntRange(0, 40).Draw(rt, "start_idx")
	if rapid.IntRange(0, 2).Draw(rt, "from_first") != 0 {
		c.StartIdx = 0
	}
	c.Pacing = rapid.IntRange(0, 3).Draw(rt, "pacing") / 3 // lock-step for a quarter of the cases
	if l, err := c.H.Lay(); err == nil && len(l.Events) > 300 {
		c.Pacing = PaceFarAhead // lock-step over thousands of packets would take seconds
	}
	if rapid.IntRange(0, 3).Draw(rt, "chop") == 0 {
		c.Chop = rapid.Uint32Range(1, 1<<32-1).Draw(rt, "chop_seed")
	}
	if rapid.IntRange(0, 7).Draw(rt, "replica_id_is_event_id") == 0 {
		c.ServerID = c.H.Cfg.ServerID // a ring of servers: events that carry the replica's own id are part of the binlog like any other
	}
	return c
}

func TestC01(t *testing.T) {
	rec := recorder("C01")
	defer rec.Flush(t)
	o := gen.DefaultHistOpt(limits(), thorough())
	po := o
	po.MaxUnits, po.MaxTables, po.Scale = 5, 3, false
	po.Col = gen.ColumnOpt{NoHeavy: true}
	rapidCheck(t, func(rt *rapid.T) {
		if rapid.IntRange(0, 19).Draw(rt, "part_parallel") == 0 {
			// 2-4 streamers, each with its own history, run at the same time in this process
			pc := drawParallelE2E(rt, po)
			rec.Case(true, pc, "parallel-streamers")
			if err := checkParallelE2E(pc); err != nil {
				rec.Violation("c01par", pc, "", err)
				rt.Fatalf("C01 violation: %v", err)
			}
			return
		}
		if rapid.IntRange(0, 24).Draw(rt, "part_reannounce") == 0 {
			// the same table id announced again with another definition (a master restart hands ids out anew)
			reannouncePart(rt, rec, "C01")
			return
		}
		c := drawE2E(rt, o)
		l, start, su, err := c.layout()
		if err != nil {
			rt.Skip(err.Error())
		}
		exp := l.Expected(start, su)
		nt := nontrivialRows(exp)
		cls := histClasses(c.H)
		if c.Chop != 0 {
			cls = append(cls, "bytes-arrive-in-pieces")
		}
		if c.Pacing == PaceLockStep {
			cls = append(cls, "lockstep")
		}
		if c.StartIdx != 0 {
			cls = append(cls, "mid-history-start")
		}
		types := map[string]bool{}
		for _, tb := range c.H.Tables {
			for _, col := range tb.Cols {
				types["type/"+typeName(col.Type, col.Real)] = true
			}
		}
		for k := range types {
			cls = append(cls, k)
		}
		rec.Case(nt, c, cls...)
		if nt {
			rec.Sample(c)
		}
		journal("C01", "c01", c)
		if err := checkC01(c); err != nil {
			rec.Violation("c01", c, "", err)
			rt.Fatalf("C01 violation: %v", err)
		}
	})
}

// ParallelE2E: several generated histories streamed at the same time by separate streamers.
type ParallelE2E struct{ Cases []*E2ECase }

func checkParallelE2E(c *ParallelE2E) error {
	errs := make([]error, len(c.Cases))
	var wg sync.WaitGroup
	for i := range c.Cases {
		wg.Add(1)
		go func(i int) {
			defer wg.Done()
			cc := *c.Cases[i]
			cc.Pacing = PaceFarAhead // quiescence probing assumes one stream at a time
			errs[i] = checkC01(&cc)
		}(i)
	}
	wg.Wait()
	for i, err := range errs {
		if err != nil {
			return fmt.Errorf("stream %d of %d running in parallel: %v", i, len(c.Cases), err)
		}
	}
	return nil
}

func drawParallelE2E(rt *rapid.T, o gen.HistOpt) *ParallelE2E {
	pc := &ParallelE2E{}
	for i, n := 0, rapid.IntRange(2, 4).Draw(rt, "par_streams"); i < n; i++ {
		pc.Cases = append(pc.Cases, drawE2E(rt, o))
	}
	return pc
}

func init() {
	registerReplay("c01par", func(raw json.RawMessage) error {
		var c ParallelE2E
		if err := json.Unmarshal(raw, &c); err != nil {
			return err
		}
		for i := 0; i < 20; i++ { // schedule dependent
			if err := checkParallelE2E(&c); err != nil {
				return err
			}
		}
		return nil
	})
}
