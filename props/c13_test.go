package props

import (
	"encoding/json"
	"fmt"
	"runtime"
	"testing"

	"pgregory.net/rapid"

	"verif/gen"
	"verif/hist"
	"verif/refenc"
)

// stringColumns enumerates (type, real) pairs of the string / binary family.
var stringKinds = []struct{ T, Real byte }{
	{refenc.TVarchar, 0}, {refenc.TVarString, 0}, {refenc.TString, refenc.TString}, {refenc.TBlob, 0},
	{refenc.TTinyBlob, 0}, {refenc.TMediumBlob, 0}, {refenc.TLongBlob, 0}, {refenc.TGeometry, 0},
}

func actualLengths(max int) []int {
	set := map[int]bool{}
	var out []int
	for _, n := range []int{0, 1, 255, 256, max} {
		if n <= max && !set[n] {
			set[n] = true
			out = append(out, n)
		}
	}
	return out
}

// NullPosCase is C13(b): a table of N string columns streamed end to end with
// column P of the only row being NULL / empty / absent (State 0/1/2), the others
// carrying ordinary values.
type NullPosCase struct {
	Cfg    hist.Cfg
	Types  []hist.Column
	P      int
	State  int
	Kind   int // rows event kind
	Others int // seed for the other columns' content
}

func (c *NullPosCase) history() *hist.History {
	tb := hist.Table{DB: "d", Name: "nulls", ID: 3}
	for i, col := range c.Types {
		col.Name = fmt.Sprintf("s%d", i)
		col.Nullable = true
		tb.Cols = append(tb.Cols, col)
	}
	n := len(tb.Cols)
	present := make([]bool, n)
	vals := make([]hist.Value, n)
	for i := range vals {
		present[i] = true
		l := (c.Others + i*7) % 5
		if tb.Cols[i].Len < l && (tb.Cols[i].Type == refenc.TVarchar || tb.Cols[i].Type == refenc.TString) {
			l = tb.Cols[i].Len
		}
		vals[i] = hist.Value{B: refenc.Blob{K: 7, S: uint32(c.Others + i), N: l}}
	}
	switch c.State {
	case 0:
		vals[c.P] = hist.Value{Null: true}
	case 1:
		vals[c.P] = hist.Value{B: refenc.Lit([]byte{})}
	default:
		present[c.P] = false
		if n == 1 {
			// a bitmap needs one present column: a single-column table cannot have it absent
			present[c.P] = true
			vals[c.P] = hist.Value{Null: true}
		}
	}
	ev := hist.RowsEv{Table: 0, Kind: c.Kind, Present1: present, TS: 50}
	full := make([]bool, n)
	for i := range full {
		full[i] = true
	}
	switch c.Kind {
	case 0:
		ev.Rows = []hist.Row{{After: vals}}
	case 1:
		ev.Present1, ev.Present2 = full, present
		before := make([]hist.Value, n)
		for i := range before {
			before[i] = hist.Value{B: refenc.Lit([]byte("b"))}
			if tb.Cols[i].Len == 0 && (tb.Cols[i].Type == refenc.TVarchar || tb.Cols[i].Type == refenc.TString) {
				before[i] = hist.Value{B: refenc.Lit([]byte{})}
			}
		}
		ev.Rows = []hist.Row{{Before: before, After: vals}}
	default:
		ev.Rows = []hist.Row{{Before: vals}}
	}
	h := &hist.History{Cfg: c.Cfg, Tables: []hist.Table{tb}, FirstFile: "bin.000001"}
	h.Units = []hist.Unit{{Kind: hist.UTxXID, Begin: &hist.Query{DB: "d", SQL: "BEGIN", TS: 49},
		Items: []hist.Item{{Kind: hist.IRows, Maps: []int{0}, Rows: []hist.RowsEv{ev}, TS: 50}}, XID: 9, TS: 51}}
	h.Base = h.MinBase()
	return h
}

// HugeCase is a row whose blob makes the event cross the protocol's packet size: the master has to send
// the event in several packets (the last one possibly empty).  Pad tunes the event so that the packet
// payload is exactly 2^24-1+Delta bytes.
type HugeCase struct {
	Cfg    hist.Cfg
	LenLen int // 3: MEDIUMBLOB, 4: LONGBLOB
	Delta  int
}

func (c *HugeCase) history() (*hist.History, error) {
	tb := hist.Table{DB: "d", Name: "huge", ID: 77, Cols: []hist.Column{{Name: "id", Type: refenc.TLong}, {Name: "b", Type: refenc.TBlob, Len: c.LenLen, Nullable: true},
		{Name: "tail", Type: refenc.TVarchar, Len: 40, Nullable: true}}}
	build := func(n int) *hist.History {
		ev := hist.RowsEv{Table: 0, Kind: 0, Present1: []bool{true, true, true}, TS: 50,
			Rows: []hist.Row{{After: []hist.Value{{U: 7}, {B: refenc.Blob{K: 4, S: uint32(n), N: n}}, {B: refenc.Lit([]byte("behind the blob"))}}}}}
		h := &hist.History{Cfg: c.Cfg, Tables: []hist.Table{tb}, FirstFile: "bin.000001"}
		h.Units = []hist.Unit{{Kind: hist.UTxXID, Begin: &hist.Query{DB: "d", SQL: "BEGIN", TS: 49},
			Items: []hist.Item{{Kind: hist.IRows, Maps: []int{0}, Rows: []hist.RowsEv{ev}, TS: 50}}, XID: 9, TS: 51},
			{Kind: hist.UDDL, Q: &hist.Query{DB: "d", SQL: "create table after_huge (a int)", TS: 52}}}
		h.Base = h.MinBase()
		return h
	}
	// measure the rows event with a small blob, then size the blob for the wanted packet payload
	h := build(10)
	l, err := h.Lay()
	if err != nil {
		return nil, err
	}
	size := 0
	for _, e := range l.Events {
		if e.Type == hist.RowsEventType(0, c.Cfg.RowsV2) {
			size = len(e.Bytes)
		}
	}
	want := 1<<24 - 1 + c.Delta - 1 // event bytes: the payload has one leading status byte
	n := 10 + want - size
	if c.LenLen == 3 && n > 1<<24-1 {
		n = 1<<24 - 1
	}
	return build(n), nil
}

func checkHuge(c *HugeCase) error {
	h, err := c.history()
	if err != nil {
		return fmt.Errorf("harness: %v", err)
	}
	return checkC01(&E2ECase{H: h, Pacing: PaceFarAhead})
}

func checkNullPos(c *NullPosCase) error {
	return checkC01(&E2ECase{H: c.history()})
}

func init() {
	registerReplay("c13huge", func(raw json.RawMessage) error {
		var c HugeCase
		if err := json.Unmarshal(raw, &c); err != nil {
			return err
		}
		return checkHuge(&c)
	})
	registerReplay("c13pos", func(raw json.RawMessage) error {
		var c NullPosCase
		if err := json.Unmarshal(raw, &c); err != nil {
			return err
		}
		return checkNullPos(&c)
	})
}

func TestC13(t *testing.T) {
	rec := recorder("C13")
	defer rec.Flush(t)
	failed := 0
	failCell := func(c CellCase, err error) {
		failed++
		p := cellViolation(rec, c, err)
		t.Errorf("C13 violation: %v (replay %s)", err, p)
	}

	// (a1) CHAR/BINARY: every declared length 0..1023 x actual {0,1,255,256,max}
	idx := 0
	for l := 0; l <= 1023 && failed == 0; l++ {
		for _, n := range actualLengths(l) {
			idx++
			if idx%envNShards != envShard {
				continue
			}
			c := CellCase{Col: hist.Column{Type: refenc.TString, Real: refenc.TString, Len: l}, Val: hist.Value{B: refenc.Blob{K: 4 + idx%4, S: uint32(idx), N: n}}, Pre: idx % 3, Post: 1}
			rec.Case(true, c, "char/declared-exhaustive")
			if err := checkCell(c); err != nil {
				failCell(c, err)
				break
			}
		}
	}
	rec.MarkExhaustive("CHAR/BINARY: every declared length 0..1023 with actual lengths {0, 1, 255, 256, max}")
	// (a2) VARCHAR: declared lengths 0..65535 (all in the thorough tier, boundaries + stride in quick)
	stride := 61
	if thorough() {
		stride = 1
	}
	for l := 0; l <= 65535 && failed == 0; l++ {
		boundary := l <= 300 || l >= 65500 || (l >= 32700 && l <= 32800)
		if !boundary && l%stride != 0 {
			continue
		}
		for _, n := range actualLengths(l) {
			idx++
			if idx%envNShards != envShard {
				continue
			}
			c := CellCase{Col: hist.Column{Type: refenc.TVarchar, Len: l}, Val: hist.Value{B: refenc.Blob{K: 4 + idx%4, S: uint32(idx), N: n}}, Pre: idx % 3, Post: 1}
			rec.Case(true, c, "varchar/declared-sweep")
			if err := checkCell(c); err != nil {
				failCell(c, err)
				break
			}
		}
	}
	if thorough() {
		rec.MarkExhaustive("VARCHAR: every declared length 0..65535 with actual lengths {0, 1, 255, 256, max}")
	}
	// (a3) blob family: length bytes 1..4 x boundary actual lengths
	if envShard == 0 && failed == 0 {
		for _, k := range []struct {
			T   byte
			Len []int
		}{{refenc.TBlob, []int{1, 2, 3, 4}}, {refenc.TTinyBlob, []int{1}}, {refenc.TMediumBlob, []int{3}}, {refenc.TLongBlob, []int{4}}, {refenc.TGeometry, []int{4, 1, 2, 3}}} {
			for _, lb := range k.Len {
				max := 70000
				if lb == 1 {
					max = 255
				} else if lb == 2 {
					max = 65535
				}
				lens := []int{0, 1, 255, 256, 65535, 65536, max}
				if lb == 3 {
					lens = append(lens, 1<<24-2, 1<<24-1) // the longest MEDIUMBLOB
				}
				if lb == 4 {
					lens = append(lens, 1<<24-1, 1<<24, 1<<24+1)
				}
				for _, n := range lens {
					if n > max && n < 1<<24-2 {
						continue
					}
					c := CellCase{Col: hist.Column{Type: k.T, Len: lb}, Val: hist.Value{B: refenc.Blob{K: 4, S: uint32(n), N: n}}, Pre: 2, Post: 2}
					rec.Case(true, c, "blob/length-bytes-boundaries")
					if err := checkCell(c); err != nil {
						failCell(c, err)
					}
				}
			}
		}
	}
	if failed > 0 {
		return
	}
	// (a5) end to end: a blob that makes the rows event cross the 2^24-1 byte packet size of the protocol
	// (payload one byte short of it, exactly it - an empty packet follows -, beyond it; the longest MEDIUMBLOB)
	if envShard == 1%envNShards {
		for _, hc := range []HugeCase{{LenLen: 4, Delta: -1}, {LenLen: 4, Delta: 0}, {LenLen: 4, Delta: 1}, {LenLen: 4, Delta: 70001}, {LenLen: 3, Delta: 1 << 20}} {
			for _, v2 := range []bool{false, true} {
				c := hc
				c.Cfg = hist.Cfg{Checksum: v2, RowsV2: v2, TableIDBytes: 6, ServerVersion: "8.0.28", NHeaderSizes: 40, ServerID: 1, CreateTS: 1}
				rec.Case(true, c, "e2e/event-larger-than-one-protocol-packet")
				journal("C13", "c13huge", c)
				if err := checkHuge(&c); err != nil {
					failed++
					rec.Violation("c13huge", c, "", err)
					t.Errorf("C13 violation: %v", err)
					break
				}
			}
		}
		runtime.GC()
	}
	if failed > 0 {
		return
	}

	// (b) NULL / empty / absent in every column position of 1..10-column tables, end to end
	rapidCheck(t, func(rt *rapid.T) {
		switch rapid.IntRange(0, 24).Draw(rt, "part_special") {
		case 0:
			parallelPart(rt, rec, "C13", stringKinds)
			return
		case 1:
			reannouncePart(rt, rec, "C13")
			return
		case 2, 3:
			// end to end with values of any size (packets beyond the driver's buffer), compared after the stream ended
			o := gen.DefaultHistOpt(limits(), false)
			o.MaxUnits, o.MaxTables, o.MaxCols, o.MaxRows = 6, 2, 5, 3
			o.BigBase = false
			o.Scale = false
			o.Col = gen.ColumnOpt{Only: []byte{refenc.TVarchar, refenc.TBlob, refenc.TString, refenc.TGeometry}}
			c := drawE2E(rt, o)
			rec.Case(true, c, "e2e/history-with-large-values")
			journal("C13", "c01", c)
			if err := checkC01(c); err != nil {
				rec.Violation("c01", c, "", err)
				rt.Fatalf("C13 violation: %v", err)
			}
			return
		}
		if rapid.Bool().Draw(rt, "part_direct") {
			// (a4) random declared length x actual length x content
			k := rapid.SampledFrom(stringKinds).Draw(rt, "kind")
			col := gen.ColumnOf(rt, k.T, k.Real, gen.ColumnOpt{Extra: true})
			c := CellCase{Col: col, Val: gen.ValueOf(rt, col, limits()), Pre: rapid.IntRange(0, 4).Draw(rt, "pre"), Post: rapid.IntRange(0, 4).Draw(rt, "post")}
			cls := "random/" + typeName(col.Type, col.Real)
			if c.Val.B.Len() == 0 {
				cls += "/empty"
			}
			rec.Case(true, c, cls)
			rec.Sample(c)
			if err := checkCell(c); err != nil {
				cellViolation(rec, c, err)
				rt.Fatalf("C13 violation: %v", err)
			}
			return
		}
		nc := rapid.IntRange(1, 10).Draw(rt, "ncols")
		base := NullPosCase{Cfg: gen.Config(rt), Kind: rapid.IntRange(0, 2).Draw(rt, "rows_kind"), Others: rapid.IntRange(0, 1000).Draw(rt, "others")}
		base.Cfg.NHeaderSizes = 40
		for i := 0; i < nc; i++ {
			k := rapid.SampledFrom(stringKinds[:4]).Draw(rt, "col_kind")
			col := gen.ColumnOf(rt, k.T, k.Real, gen.ColumnOpt{NoHeavy: true})
			base.Types = append(base.Types, col)
		}
		for p := 0; p < nc; p++ {
			for state := 0; state < 3; state++ {
				c := base
				c.P, c.State = p, state
				rec.Case(true, c, fmt.Sprintf("position/state=%s", [...]string{"null", "empty", "absent"}[state]), fmt.Sprintf("position/ncols=%d", nc))
				if p == 0 && state == 0 {
					rec.Sample(c)
				}
				journal("C13", "c13pos", c)
				if err := checkNullPos(&c); err != nil {
					rec.Violation("c13pos", c, "", err)
					rt.Fatalf("C13 violation (column %d of %d, state %d): %v", p, nc, state, err)
				}
			}
		}
	})
}

// FuzzC13 is the native coverage-guided supplement of the generated part (thorough tier only).
func FuzzC13(f *testing.F) { fuzzProperty(f, TestC13) }
