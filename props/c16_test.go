package props

import (
	"bytes"
	"encoding/json"
	"fmt"
	"reflect"
	"strings"
	"testing"

	"github.com/Breeze0806/gobinlog/replication"
	"pgregory.net/rapid"

	"verif/gen"
	"verif/hist"
	"verif/refenc"
)

// CtlCase is one control event with its header fields.
type CtlCase struct {
	Kind          string // "fde", "rotate", "query", "xid", "intvar", "rand"
	Hdr           refenc.Header
	ServerVersion string
	Sizes         []byte
	Alg           byte // checksum algorithm announced by the format description under test
	// rotate
	Pos  uint64
	Name string
	// query
	DB      string
	SQL     refenc.Blob
	Charset *[3]uint16
	Vars    []refenc.StatusVar
	ErrCode uint16
	// intvar / rand / xid
	ID     byte
	V1, V2 uint64
	Maria  bool
}

func (c *CtlCase) body() []byte {
	switch c.Kind {
	case "fde":
		return refenc.FDEBody(4, c.ServerVersion, c.Hdr.Timestamp, 19, c.Sizes, c.Alg)
	case "rotate":
		return refenc.RotateBody(c.Pos, c.Name)
	case "query":
		h := hist.History{}
		_ = h
		vars := append([]refenc.StatusVar{}, c.Vars...)
		if c.Charset != nil {
			// place code 4 at its position in the emission order
			out := make([]refenc.StatusVar, 0, len(vars)+1)
			placed := false
			rank := func(code byte) int {
				for i, x := range refenc.StatusVarOrder {
					if x == code {
						return i
					}
				}
				return 99
			}
			for _, v := range vars {
				if !placed && rank(v.Code) > rank(4) {
					out = append(out, refenc.CharsetVar(c.Charset[0], c.Charset[1], c.Charset[2]))
					placed = true
				}
				out = append(out, v)
			}
			if !placed {
				out = append(out, refenc.CharsetVar(c.Charset[0], c.Charset[1], c.Charset[2]))
			}
			vars = out
		}
		return refenc.QueryBody(uint32(c.V1), uint32(c.V2), c.ErrCode, refenc.StatusVars(vars), c.DB, string(c.SQL.Bytes()))
	case "xid":
		return refenc.XIDBody(c.V1)
	case "intvar":
		return refenc.IntVarBody(c.ID, c.V1)
	case "rand":
		return refenc.RandBody(c.V1, c.V2)
	}
	panic("bad kind")
}

// decoded is everything the accessors say about an event.
type decoded struct {
	TS       uint32
	Type     byte
	ServerID uint32
	Flags    uint16
	Next     int64
	Preds    [8]bool
	Format   *replication.BinlogFormat
	RotName  string
	RotPos   int64
	Query    *replication.Query
	IVID     byte
	IV       uint64
	S1, S2   uint64
}

func decodeCtl(ev replication.BinlogEvent, f replication.BinlogFormat, kind string) (d decoded, err error) {
	err = guard(func() error {
		h := ev.(headerAccessors)
		d.TS, d.Type, d.ServerID, d.Flags, d.Next = ev.Timestamp(), h.Type(), h.ServerID(), h.Flags(), ev.NextPosition()
		d.Preds = [8]bool{ev.IsFormatDescription(), ev.IsRotate(), ev.IsQuery(), ev.IsXID(), ev.IsIntVar(), ev.IsRand(), ev.IsTableMap(), ev.IsGTID()}
		switch kind {
		case "fde":
			ff, e := ev.Format()
			if e != nil {
				return e
			}
			d.Format = &ff
		case "rotate":
			var e error
			d.RotName, d.RotPos, e = ev.Rotate(f)
			return e
		case "query":
			q, e := ev.Query(f)
			if e != nil {
				return e
			}
			d.Query = &q
		case "intvar":
			var e error
			d.IVID, d.IV, e = ev.IntVar(f)
			return e
		case "rand":
			var e error
			d.S1, d.S2, e = ev.Rand(f)
			return e
		}
		return nil
	})
	return
}

func checkCtl(c *CtlCase) error {
	mk := replication.NewMysql56BinlogEvent
	if c.Maria {
		mk = replication.NewMariadbBinlogEvent
	}
	sizes := c.Sizes
	if sizes == nil {
		sizes = refenc.StdHeaderSizes(40, 6)
	}
	fmtFor := func(alg byte) replication.BinlogFormat {
		return replication.BinlogFormat{FormatVersion: 4, ServerVersion: "x", HeaderLength: 19, ChecksumAlgorithm: alg, HeaderSizes: sizes}
	}
	body := c.body()
	typ := map[string]byte{"fde": refenc.EvFormatDesc, "rotate": refenc.EvRotate, "query": refenc.EvQuery, "xid": refenc.EvXID, "intvar": refenc.EvIntVar, "rand": refenc.EvRand}[c.Kind]
	hd := c.Hdr
	hd.Type = typ
	var results []decoded
	for _, alg := range []byte{refenc.ChecksumOff, refenc.ChecksumCRC32, refenc.ChecksumUndef} {
		crc := alg == refenc.ChecksumCRC32
		if c.Kind == "fde" {
			crc = true // a format description always carries the trailing checksum bytes
		}
		raw := refenc.BuildEvent(hd, body, crc)
		received := append([]byte{}, raw...)
		ev := mk(raw)
		orig := ev
		if !ev.IsValid() {
			return fmt.Errorf("%s, algorithm %d: a well-formed event fails the validity gate", c.Kind, alg)
		}
		f := fmtFor(alg)
		if c.Kind != "fde" {
			var err error
			if err = guard(func() (e error) { ev, _, e = ev.StripChecksum(f); return }); err != nil {
				return fmt.Errorf("%s, algorithm %d: StripChecksum failed: %v", c.Kind, alg, err)
			}
		}
		d, err := decodeCtl(ev, f, c.Kind)
		if err != nil {
			return fmt.Errorf("%s, algorithm %d: decoding a well-formed event failed: %v", c.Kind, alg, err)
		}
		// the accessors are functions of the event: asked a second time they answer the same
		if d2, err := decodeCtl(ev, f, c.Kind); err != nil || !reflect.DeepEqual(d, d2) {
			return fmt.Errorf("%s, algorithm %d: decoding the same event a second time gives %+v (err %v), the first time %+v", c.Kind, alg, d2, err, d)
		}
		// stripping and decoding are reads: the bytes that were received still are what the master wrote,
		// and the event as received still passes the gate and reports the length the master wrote
		if !bytes.Equal(raw, received) {
			return fmt.Errorf("%s, algorithm %d: the received bytes were modified by StripChecksum / the accessors", c.Kind, alg)
		}
		if !orig.IsValid() || !bytes.Equal(orig.Bytes(), received) {
			return fmt.Errorf("%s, algorithm %d: after its checksum was stripped the event as received reports valid=%v and no longer holds the bytes the master wrote", c.Kind, alg, orig.IsValid())
		}
		// strings are values: what Query / Rotate / Format returned must not change when the caller goes on
		// to use its receive buffer for the next event (slices such as HeaderSizes may be windows of it)
		if d.Format != nil {
			d.Format.HeaderSizes = append([]byte(nil), d.Format.HeaderSizes...)
		}
		keep := func(s string) string { return string(append([]byte(nil), s...)) }
		var texts, copies []string
		if d.Format != nil {
			texts = append(texts, d.Format.ServerVersion)
		}
		if d.Query != nil {
			texts = append(texts, d.Query.Database, d.Query.SQL)
		}
		texts = append(texts, d.RotName)
		for _, t := range texts {
			copies = append(copies, keep(t))
		}
		for i := range raw {
			raw[i] ^= 0x5a
		}
		for i := range texts {
			if texts[i] != copies[i] {
				return fmt.Errorf("%s, algorithm %d: a string returned for the event (%.60q) changed to %.60q when the caller reused its receive buffer", c.Kind, alg, copies[i], texts[i])
			}
		}
		results = append(results, d)
	}
	// the three decodings agree (checksum on == off == undefined once the algorithm is applied)
	for i := 1; i < len(results); i++ {
		if !reflect.DeepEqual(results[0], results[i]) {
			return fmt.Errorf("%s: decoding with checksum algorithm %d differs from decoding without checksum:\n %+v\n %+v", c.Kind, []byte{0, 1, 255}[i], results[0], results[i])
		}
	}
	d := results[0]
	if d.TS != hd.Timestamp || d.Type != typ || d.ServerID != hd.ServerID || d.Flags != hd.Flags || d.Next != int64(hd.LogPos) {
		return fmt.Errorf("%s: header decoded as ts=%d type=%d server=%d flags=%#x next=%d, written %+v", c.Kind, d.TS, d.Type, d.ServerID, d.Flags, d.Next, hd)
	}
	wantPreds := [8]bool{c.Kind == "fde", c.Kind == "rotate", c.Kind == "query", c.Kind == "xid", c.Kind == "intvar", c.Kind == "rand", false, false}
	if d.Preds != wantPreds {
		return fmt.Errorf("%s: type predicates %v, want %v", c.Kind, d.Preds, wantPreds)
	}
	switch c.Kind {
	case "fde":
		f := d.Format
		if f.FormatVersion != 4 || f.ServerVersion != c.ServerVersion || f.HeaderLength != 19 || f.ChecksumAlgorithm != c.Alg || string(f.HeaderSizes) != string(c.Sizes) {
			return fmt.Errorf("format description decoded as version=%d server=%q headerLen=%d alg=%d sizes(%d)=%v; written server=%q alg=%d sizes(%d)=%v",
				f.FormatVersion, f.ServerVersion, f.HeaderLength, f.ChecksumAlgorithm, len(f.HeaderSizes), f.HeaderSizes, c.ServerVersion, c.Alg, len(c.Sizes), c.Sizes)
		}
		if f.IsZero() {
			return fmt.Errorf("decoded format reports IsZero")
		}
		for t := 1; t <= len(c.Sizes); t++ {
			if f.HeaderSize(byte(t)) != c.Sizes[t-1] {
				return fmt.Errorf("HeaderSize(%d) = %d, want %d", t, f.HeaderSize(byte(t)), c.Sizes[t-1])
			}
		}
	case "rotate":
		if d.RotName != c.Name || d.RotPos != int64(c.Pos) {
			return fmt.Errorf("rotate decoded as %q:%d, written %q:%d", d.RotName, d.RotPos, c.Name, c.Pos)
		}
	case "query":
		q := d.Query
		if q.Database != c.DB {
			return fmt.Errorf("query database %q, written %q", q.Database, c.DB)
		}
		if q.SQL != string(c.SQL.Bytes()) {
			return fmt.Errorf("query SQL (%d bytes) differs from the written text (%d bytes): %.80q", len(q.SQL), c.SQL.Len(), q.SQL)
		}
		if (q.Charset == nil) != (c.Charset == nil) {
			return fmt.Errorf("query charset %v, written %v (status variables %v)", q.Charset, c.Charset, varCodes(c.Vars))
		}
		if c.Charset != nil && (q.Charset.Client != int32(c.Charset[0]) || q.Charset.Conn != int32(c.Charset[1]) || q.Charset.Server != int32(c.Charset[2])) {
			return fmt.Errorf("query charset %v, written %v", q.Charset, *c.Charset)
		}
	case "intvar":
		if d.IVID != c.ID || d.IV != c.V1 {
			return fmt.Errorf("intvar decoded as %d=%d, written %d=%d", d.IVID, d.IV, c.ID, c.V1)
		}
	case "rand":
		if d.S1 != c.V1 || d.S2 != c.V2 {
			return fmt.Errorf("rand decoded as %d,%d, written %d,%d", d.S1, d.S2, c.V1, c.V2)
		}
	}
	return nil
}

func varCodes(vs []refenc.StatusVar) []byte {
	var out []byte
	for _, v := range vs {
		out = append(out, v.Code)
	}
	return out
}

func init() {
	registerReplay("c16", func(raw json.RawMessage) error {
		var c CtlCase
		if err := json.Unmarshal(raw, &c); err != nil {
			return err
		}
		return checkCtl(&c)
	})
}

func TestC16(t *testing.T) {
	rec := recorder("C16")
	defer rec.Flush(t)
	u32 := func(rt *rapid.T, label string) uint32 {
		if rapid.Bool().Draw(rt, label+"_b") {
			return rapid.SampledFrom([]uint32{0, 1, 255, 256, 65535, 65536, 1<<24 - 1, 1 << 24, 1<<31 - 1, 1 << 31, 1<<32 - 1}).Draw(rt, label)
		}
		return rapid.Uint32().Draw(rt, label)
	}
	u64 := func(rt *rapid.T, label string) uint64 {
		if rapid.Bool().Draw(rt, label+"_b") {
			return rapid.SampledFrom([]uint64{0, 1, 4, 1<<31 - 1, 1 << 31, 1<<32 - 1, 1 << 32, 1<<63 - 1}).Draw(rt, label)
		}
		return rapid.Uint64().Draw(rt, label)
	}
	ho := faultHistOpt()
	ho.Rotations = 2
	ho.Scale = false
	rapidCheck(t, func(rt *rapid.T) {
		if rapid.IntRange(0, 29).Draw(rt, "part_e2e") == 0 {
			// end to end: the announced algorithm is the one of the LATEST format description of THIS attempt,
			// also when the setting changes at a rotation and when an earlier attempt saw another one
			c := &FaultCase{H: gen.History(rt, ho)}
			e := E2ECase{H: c.H}
			l, start, su, err := e.layout()
			if err != nil {
				rt.Skip(err.Error())
			}
			payloads, _, _ := l.Served(start.File, start.Off)
			for i, n := 0, rapid.IntRange(1, 2).Draw(rt, "attempts"); i < n; i++ {
				c.Attempts = append(c.Attempts, AttemptSpec{Fault: drawFault(rt, []string{"fin", "eof", "cancel_in"}, len(payloads)+1, len(l.Expected(start, su)))})
			}
			flips := 0
			for _, u := range c.H.Units {
				if u.FlipChecksum {
					flips++
				}
			}
			rec.Case(flips > 0, c, "e2e/attempts-over-checksum-changes", fmt.Sprintf("e2e/flips=%d", flips))
			journal("C16", "c04", c)
			if _, err := checkC04(c); err != nil {
				rec.Violation("c04", c, "", err)
				rt.Fatalf("C16 violation: %v", err)
			}
			return
		}
		c := &CtlCase{Kind: rapid.SampledFrom([]string{"fde", "rotate", "query", "query", "query", "xid", "intvar", "rand"}).Draw(rt, "kind")}
		c.Hdr = refenc.Header{Timestamp: u32(rt, "ts"), ServerID: u32(rt, "server_id"), LogPos: u32(rt, "log_pos"), Flags: uint16(rapid.IntRange(0, 65535).Draw(rt, "flags"))}
		c.Maria = rapid.IntRange(0, 4).Draw(rt, "maria") == 0
		cls := []string{"kind/" + c.Kind}
		switch c.Kind {
		case "fde":
			n := rapid.IntRange(0, 50).Draw(rt, "sv_len")
			if rapid.Bool().Draw(rt, "sv_b") {
				n = rapid.SampledFrom([]int{0, 1, 49, 50}).Draw(rt, "sv_len_b")
			}
			sv := refenc.Blob{K: 7, S: rapid.Uint32().Draw(rt, "sv_s"), N: n}.Bytes()
			c.ServerVersion = string(sv)
			if rapid.IntRange(0, 3).Draw(rt, "sv_real") == 0 {
				// version strings as servers write them (MariaDB 10+ is known for a "5.5.5-" prefix in its greeting)
				c.ServerVersion = rapid.SampledFrom([]string{"5.6.33-log", "5.7.44-48-log", "8.0.36-0ubuntu0.22.04.1", "10.4.13-MariaDB-log", "5.5.5-10.4.13-MariaDB-log", "5.5.5-", "5.5.5-m3-log",
					"5.5.62", "8.4.0", "5.7.30-debug-log", "11.2.2-MariaDB-1:11.2.2+maria~ubu2204-log", "5.6.33-0ubuntu0.14.04.1-log"}).Draw(rt, "sv_realistic")
				if len(c.ServerVersion) > 50 {
					c.ServerVersion = c.ServerVersion[:50]
				}
			}
			ns := rapid.IntRange(27, 255).Draw(rt, "nsizes")
			if rapid.Bool().Draw(rt, "nsizes_b") {
				ns = rapid.SampledFrom([]int{27, 28, 35, 38, 41, 254, 255}).Draw(rt, "nsizes_bv")
			}
			c.Sizes = rapid.SliceOfN(rapid.Byte(), ns, ns).Draw(rt, "sizes")
			c.Alg = rapid.SampledFrom([]byte{0, 1, 255}).Draw(rt, "alg")
			cls = append(cls, fmt.Sprintf("fde/alg=%d", c.Alg))
			if n == 50 {
				cls = append(cls, "fde/server-version-50")
			}
			if strings.HasSuffix(c.ServerVersion, " ") {
				cls = append(cls, "fde/trailing-space")
			}
		case "rotate":
			c.Pos = u64(rt, "rot_pos") & (1<<63 - 1)
			n := rapid.IntRange(0, 255).Draw(rt, "rot_len")
			c.Name = string(refenc.Blob{K: rapid.SampledFrom([]int{5, 7}).Draw(rt, "rot_k"), S: rapid.Uint32().Draw(rt, "rot_s"), N: n}.Bytes())
		case "query":
			c.DB = string(refenc.Blob{K: rapid.SampledFrom([]int{5, 7}).Draw(rt, "db_k"), S: rapid.Uint32().Draw(rt, "db_s"), N: rapid.SampledFrom([]int{0, 1, 2, 64, 254, 255, 10, 33}).Draw(rt, "db_len")}.Bytes())
			c.DB = strings.ReplaceAll(c.DB, "\x00", "x")
			sqlLen := rapid.IntRange(0, 200).Draw(rt, "sql_len")
			if rapid.IntRange(0, 9).Draw(rt, "sql_big") == 0 {
				sqlLen = rapid.SampledFrom([]int{0, 65535, 65536, 40000}).Draw(rt, "sql_len_b")
			}
			c.SQL = refenc.Blob{K: rapid.IntRange(3, 7).Draw(rt, "sql_k"), S: rapid.Uint32().Draw(rt, "sql_s"), N: sqlLen}
			c.Vars = gen.StatusVars(rt, true)
			if rapid.IntRange(0, 3).Draw(rt, "has_charset") != 0 {
				c.Charset = &[3]uint16{uint16(rapid.IntRange(0, 65535).Draw(rt, "cs1")), uint16(rapid.IntRange(0, 65535).Draw(rt, "cs2")), uint16(rapid.IntRange(0, 65535).Draw(rt, "cs3"))}
			}
			c.V1, c.V2 = uint64(u32(rt, "thread")), uint64(u32(rt, "exec"))
			c.ErrCode = uint16(rapid.IntRange(0, 65535).Draw(rt, "errcode"))
			cls = append(cls, fmt.Sprintf("query/vars=%d", len(c.Vars)))
			before, after := false, false
			for _, v := range c.Vars {
				switch v.Code {
				case 0, 1, 6, 3:
					before = true
				default:
					after = true
				}
			}
			if c.Charset != nil && before {
				cls = append(cls, "query/charset-after-other-vars")
			}
			if c.Charset != nil && after {
				cls = append(cls, "query/charset-before-later-vars")
			}
		case "xid":
			c.V1 = u64(rt, "xid")
		case "intvar":
			c.ID = byte(rapid.IntRange(1, 2).Draw(rt, "intvar_id"))
			c.V1 = u64(rt, "intvar_v")
		case "rand":
			c.V1, c.V2 = u64(rt, "seed1"), u64(rt, "seed2")
		}
		if c.Maria {
			cls = append(cls, "flavor/mariadb")
		}
		rec.Case(true, c, cls...)
		if c.SQL.Len() < 300 {
			rec.Sample(c)
		}
		if err := checkCtl(c); err != nil {
			rec.Violation("c16", c, "", err)
			rt.Fatalf("C16 violation: %v", err)
		}
	})
}

// FuzzC16 is the native coverage-guided supplement of the generated part (thorough tier only).
func FuzzC16(f *testing.F) { fuzzProperty(f, TestC16) }
