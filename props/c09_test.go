package props

import (
	"bytes"
	"encoding/json"
	"fmt"
	"reflect"
	"testing"

	"github.com/Breeze0806/gobinlog/replication"
	"pgregory.net/rapid"

	"verif/gen"
	"verif/hist"
	"verif/refenc"
)

// RowsCase is one direct rows-event case.
type RowsCase struct {
	Cfg   hist.Cfg
	Table hist.Table
	Ev    hist.RowsEv
}

// libFormat builds the library's BinlogFormat value for a configuration from
// the logical parameters (not by decoding a format description event).
func libFormat(cfg hist.Cfg) replication.BinlogFormat {
	alg := byte(refenc.ChecksumOff)
	if cfg.Checksum {
		alg = refenc.ChecksumCRC32
	}
	return replication.BinlogFormat{FormatVersion: 4, ServerVersion: cfg.ServerVersion, HeaderLength: 19, ChecksumAlgorithm: alg,
		HeaderSizes: refenc.StdHeaderSizes(cfg.NHeaderSizes, cfg.TableIDBytes)}
}

func stripped(b []byte, f replication.BinlogFormat) (replication.BinlogEvent, error) {
	ev := replication.NewMysql56BinlogEvent(b)
	if !ev.IsValid() {
		return nil, fmt.Errorf("harness: encoder produced an event that fails the validity gate")
	}
	ev, _, err := ev.StripChecksum(f)
	return ev, err
}

func bitmapEq(b *replication.Bitmap, want []bool, what string) error {
	if b.Count() != len(want) {
		return fmt.Errorf("%s: bitmap has %d bits, want %d", what, b.Count(), len(want))
	}
	for i, w := range want {
		if b.Bit(i) != w {
			return fmt.Errorf("%s: bit %d = %v, want %v", what, i, b.Bit(i), w)
		}
	}
	return nil
}

// walkImage decodes an image column by column and checks exact consumption.
func walkImage(t *hist.Table, tm *replication.TableMap, present []bool, vals []hist.Value, image []byte, what string) error {
	pos := 0
	for c, col := range t.Cols {
		if !present[c] || vals[c].Null {
			continue
		}
		want := hist.EncodeCell(col, vals[c])
		var n int
		var out []byte
		err := guard(func() (e error) {
			out, n, e = replication.CellBytes(image, pos, tm.Types[c], tm.Metadata[c], col.Unsigned)
			return
		})
		if err != nil {
			return fmt.Errorf("%s col %d (type %d): CellBytes failed at offset %d: %v", what, c, col.Type, pos, err)
		}
		if n != len(want) {
			return fmt.Errorf("%s col %d (type %d meta %#x): decoder consumed %d bytes, the cell has %d", what, c, col.Type, tm.Metadata[c], n, len(want))
		}
		if err := hist.ExpectCell(col, vals[c], col.Unsigned).Check(out); err != nil {
			return fmt.Errorf("%s col %d (type %d): %v", what, c, col.Type, err)
		}
		pos += n
	}
	if pos != len(image) {
		return fmt.Errorf("%s: walking the image consumed %d bytes, the image has %d", what, pos, len(image))
	}
	return nil
}

func valuesOnly(t *hist.Table, present []bool, vals []hist.Value) (img []byte, nulls []bool) {
	for c, col := range t.Cols {
		if !present[c] {
			continue
		}
		nulls = append(nulls, vals[c].Null)
		if !vals[c].Null {
			img = append(img, hist.EncodeCell(col, vals[c])...)
		}
	}
	if img == nil {
		img = []byte{}
	}
	return
}

func checkRowsCase(c *RowsCase) error {
	h := &hist.History{Cfg: c.Cfg, Tables: []hist.Table{c.Table}}
	f := libFormat(c.Cfg)
	hd := refenc.Header{Timestamp: 5, ServerID: 1, LogPos: 1000}
	hd.Type = refenc.EvTableMap
	tmEv, err := stripped(refenc.BuildEvent(hd, h.TableMapBody(&h.Tables[0], nil), c.Cfg.Checksum), f)
	if err != nil {
		return err
	}
	var tm *replication.TableMap
	if err := guard(func() (e error) { tm, e = tmEv.TableMap(f); return }); err != nil {
		return fmt.Errorf("TableMap failed: %v", err)
	}
	ev := c.Ev
	ev.Table = 0
	hd.Type = hist.RowsEventType(ev.Kind, c.Cfg.RowsV2)
	rowsEv, err := stripped(refenc.BuildEvent(hd, h.RowsBody(&ev, true), c.Cfg.Checksum), f)
	if err != nil {
		return err
	}
	var rows replication.Rows
	if err := guard(func() (e error) { rows, e = rowsEv.Rows(f, tm); return }); err != nil {
		return fmt.Errorf("Rows failed on a well-formed event: %v", err)
	}
	if id := rowsEv.TableID(f); id != c.Table.ID {
		return fmt.Errorf("TableID = %d, want %d", id, c.Table.ID)
	}
	if len(rows.Rows) != len(ev.Rows) {
		return fmt.Errorf("%d rows decoded, the event holds %d", len(rows.Rows), len(ev.Rows))
	}
	if rows.Flags != 1 {
		return fmt.Errorf("flags %#x, want STMT_END_F", rows.Flags)
	}
	hasBefore, hasAfter := ev.Kind != 0, ev.Kind != 2
	presB, presA := ev.Present1, ev.Present1
	if ev.Kind == 1 {
		presA = ev.Present2
	}
	if hasBefore {
		if err := bitmapEq(&rows.IdentifyColumns, presB, "before-image presence"); err != nil {
			return err
		}
	}
	if hasAfter {
		if err := bitmapEq(&rows.DataColumns, presA, "after-image presence"); err != nil {
			return err
		}
	}
	t := &h.Tables[0]
	for r := range ev.Rows {
		got := rows.Rows[r]
		if hasBefore {
			img, nulls := valuesOnly(t, presB, ev.Rows[r].Before)
			if !bytes.Equal(got.Identify, img) {
				return fmt.Errorf("row %d: before image differs from the encoded one (%d vs %d bytes)", r, len(got.Identify), len(img))
			}
			if err := bitmapEq(&got.NullIdentifyColumns, nulls, fmt.Sprintf("row %d before-image NULL bitmap", r)); err != nil {
				return err
			}
			if err := walkImage(t, tm, presB, ev.Rows[r].Before, got.Identify, fmt.Sprintf("row %d before", r)); err != nil {
				return err
			}
			if !bytes.Equal(got.Identify, img) {
				return fmt.Errorf("row %d: decoding the cells of the before image changed the image", r)
			}
		}
		if hasAfter {
			img, nulls := valuesOnly(t, presA, ev.Rows[r].After)
			if !bytes.Equal(got.Data, img) {
				return fmt.Errorf("row %d: after image differs from the encoded one (%d vs %d bytes)", r, len(got.Data), len(img))
			}
			if err := bitmapEq(&got.NullColumns, nulls, fmt.Sprintf("row %d after-image NULL bitmap", r)); err != nil {
				return err
			}
			if err := walkImage(t, tm, presA, ev.Rows[r].After, got.Data, fmt.Sprintf("row %d after", r)); err != nil {
				return err
			}
			if !bytes.Equal(got.Data, img) {
				return fmt.Errorf("row %d: decoding the cells of the after image changed the image", r)
			}
		}
	}
	// the accessors are functions of the event: asked again they answer the same, and what they
	// answered before is still what it was
	want, _ := json.Marshal(rows)
	var tm2 *replication.TableMap
	var rows2 replication.Rows
	if err := guard(func() (e error) { tm2, e = tmEv.TableMap(f); return }); err != nil || !reflect.DeepEqual(tm, tm2) {
		return fmt.Errorf("TableMap() of the same event a second time: %+v (err %v), the first time %+v", tm2, err, tm)
	}
	if err := guard(func() (e error) { rows2, e = rowsEv.Rows(f, tm); return }); err != nil || !reflect.DeepEqual(rows, rows2) {
		return fmt.Errorf("Rows() of the same event a second time differs from the first (err %v)", err)
	}
	if now, _ := json.Marshal(rows); !bytes.Equal(now, want) {
		return fmt.Errorf("the first Rows() result changed when Rows() was called again")
	}
	return nil
}

func init() {
	registerReplay("c09", func(raw json.RawMessage) error {
		var c RowsCase
		if err := json.Unmarshal(raw, &c); err != nil {
			return err
		}
		return checkRowsCase(&c)
	})
}

// wideTable draws a table of 1..300 columns over both type strata.
func wideTable(rt *rapid.T, maxCols int, opt gen.ColumnOpt, idBytes int) hist.Table {
	tb := hist.Table{DB: "d", Name: "t", ID: 1}
	if idBytes == 6 {
		tb.ID = rapid.SampledFrom([]uint64{1, 255, 1 << 32, 1<<48 - 2}).Draw(rt, "tid")
	} else {
		tb.ID = rapid.SampledFrom([]uint64{1, 255, 65536, 1<<32 - 2}).Draw(rt, "tid")
	}
	var nc int
	switch rapid.IntRange(0, 9).Draw(rt, "ncols_k") {
	case 0:
		nc = rapid.SampledFrom([]int{8, 9, 16, 17, 64, 65, 250, 251, 252, 255, 256, 257, 300}).Draw(rt, "ncols")
	case 1:
		nc = rapid.IntRange(min(13, maxCols), maxCols).Draw(rt, "ncols")
	default:
		nc = rapid.IntRange(1, 12).Draw(rt, "ncols")
	}
	if nc > maxCols {
		nc = maxCols
	}
	for i := 0; i < nc; i++ {
		col := gen.Column(rt, opt)
		col.Name = fmt.Sprintf("c%d", i)
		tb.Cols = append(tb.Cols, col)
	}
	return tb
}

func TestC09(t *testing.T) {
	rec := recorder("C09")
	defer rec.Flush(t)
	lim := gen.Limits{MaxBlob: 600, MaxJSONKB: 66}
	o := gen.HistOpt{MaxRows: 8, Lim: lim}
	rapidCheck(t, func(rt *rapid.T) {
		if rapid.IntRange(0, 11).Draw(rt, "part_e2e") == 0 {
			// end to end: the streamer must split and decode rows with the MOST RECENT table map of the id
			// (same id announced again with other column types / metadata) - shared with C15's scenario
			c := drawRebind(rt, 0)
			rec.Case(true, c, "e2e/re-announced-table-map")
			journal("C09", "c15rebind", c)
			if err := checkRebind(c); err != nil {
				rec.Violation("c15rebind", c, "", err)
				rt.Fatalf("C09 violation: %v", err)
			}
			return
		}
		if rapid.IntRange(0, 29).Draw(rt, "part_bigrows") == 0 {
			// end to end: a rows event with more than a thousand rows, autocommitted or inside a transaction,
			// with a cancellation between two parser steps: what is delivered must hold every encoded row
			b := &seqBuilder{h: &hist.History{FirstFile: "bin.000001", Tables: []hist.Table{c02Table()}}, file: 1, ts: 500}
			b.h.Cfg = gen.Config(rt)
			b.h.Cfg.NHeaderSizes = 40
			b.add(0)
			n := rapid.SampledFrom([]int{1024, 1025, 1500, 3000}).Draw(rt, "nrows")
			r := b.rows(0)
			first := r.Rows[0]
			r.Rows = make([]hist.Row, n)
			for i := range r.Rows {
				r.Rows[i] = first
			}
			if rapid.Bool().Draw(rt, "autocommitted") {
				b.h.Units = append(b.h.Units, hist.Unit{Kind: hist.UAutoRows, Items: []hist.Item{{Kind: hist.IRows, Maps: []int{0}, Rows: []hist.RowsEv{r}, TS: r.TS}}})
			} else {
				b.h.Units = append(b.h.Units, hist.Unit{Kind: hist.UTxXID, Begin: b.q("BEGIN"), Items: []hist.Item{{Kind: hist.IRows, Maps: []int{0}, Rows: []hist.RowsEv{r}, TS: r.TS}}, XID: 77, TS: b.t()})
			}
			b.add(1)
			b.h.Base = b.h.MinBase()
			fc := &FaultCase{H: b.h, Attempts: []AttemptSpec{{Fault: Fault{Kind: "cancel_log", At: rapid.IntRange(1, 40).Draw(rt, "cancel_at_log_call")}}}}
			rec.Case(true, fc, "e2e/big-rows-event-with-cancel")
			journal("C09", "c04", fc)
			if _, err := checkC04(fc); err != nil {
				rec.Violation("c04", fc, "", err)
				rt.Fatalf("C09 violation: %v", err)
			}
			return
		}
		c := &RowsCase{Cfg: gen.Config(rt)}
		c.Cfg.NHeaderSizes = rapid.IntRange(35, 60).Draw(rt, "nsizes")
		opt := gen.ColumnOpt{Extra: true}
		c.Table = wideTable(rt, 300, opt, c.Cfg.TableIDBytes)
		if len(c.Table.Cols) > 40 {
			// keep wide tables light: no JSON documents
			for i := range c.Table.Cols {
				if c.Table.Cols[i].Type == refenc.TJSON {
					c.Table.Cols[i] = hist.Column{Name: c.Table.Cols[i].Name, Type: refenc.TLong, Nullable: true}
				}
			}
		}
		c.Ev = gen.RowsEvent(rt, []hist.Table{c.Table}, 0, gen.NewClock(), o)
		nulls, partial := false, false
		for _, p := range append(append([]bool{}, c.Ev.Present1...), c.Ev.Present2...) {
			partial = partial || !p
		}
		for _, r := range c.Ev.Rows {
			for _, v := range append(append([]hist.Value{}, r.Before...), r.After...) {
				nulls = nulls || v.Null
			}
		}
		nt := len(c.Table.Cols) > 8 || len(c.Ev.Rows) >= 2 || (partial && nulls)
		cls := []string{fmt.Sprintf("kind=%d", c.Ev.Kind), fmt.Sprintf("rowsV2=%v", c.Cfg.RowsV2), fmt.Sprintf("idBytes=%d", c.Cfg.TableIDBytes), fmt.Sprintf("checksum=%v", c.Cfg.Checksum)}
		switch n := len(c.Table.Cols); {
		case n > 250:
			cls = append(cls, "cols>250")
		case n > 8:
			cls = append(cls, "cols>8")
		}
		if len(c.Ev.Rows) == 0 {
			cls = append(cls, "rows=0")
		}
		if partial {
			cls = append(cls, "partial-image")
		}
		if c.Cfg.RowsV2 {
			cls = append(cls, fmt.Sprintf("extra-len=%d", min(c.Cfg.ExtraLen, 3)))
		}
		rec.Case(nt, c, cls...)
		if nt && len(c.Table.Cols) < 20 {
			rec.Sample(c)
		}
		if err := checkRowsCase(c); err != nil {
			rec.Violation("c09", c, "", err)
			rt.Fatalf("C09 violation: %v", err)
		}
	})
}

// FuzzC09 is the native coverage-guided supplement of the generated part (thorough tier only).
func FuzzC09(f *testing.F) { fuzzProperty(f, TestC09) }
