package props

import (
	"bytes"
	"encoding/json"
	"fmt"
	"reflect"
	"strings"
	"testing"
	"unicode/utf8"

	"github.com/Breeze0806/gobinlog"
	"github.com/Breeze0806/gobinlog/replication"
	"pgregory.net/rapid"

	"verif/gen"
	"verif/hist"
	"verif/refenc"
)

// documented names (the ones TestStatementType_String / TestColumnType_String pin)
var docKindName = map[gobinlog.StatementType]string{
	gobinlog.StatementUnknown: "unknown", gobinlog.StatementBegin: "begin", gobinlog.StatementCommit: "commit", gobinlog.StatementRollback: "rollback",
	gobinlog.StatementInsert: "insert", gobinlog.StatementUpdate: "update", gobinlog.StatementDelete: "delete", gobinlog.StatementCreate: "create",
	gobinlog.StatementAlter: "alter", gobinlog.StatementDrop: "drop", gobinlog.StatementTruncate: "truncate", gobinlog.StatementRename: "rename", gobinlog.StatementSet: "set",
}

var docTypeName = map[int]string{0: "Decimal", 1: "Tiny", 2: "Short", 3: "Long", 4: "Float", 5: "Double", 6: "Null", 7: "Timestamp", 8: "LongLong", 9: "Int24",
	10: "Date", 11: "Time", 12: "DateTime", 13: "Year", 14: "NewDate", 15: "Varchar", 16: "Bit", 17: "Timestamp2", 18: "DateTime2", 19: "Time2",
	245: "JSON", 246: "NewDecimal", 247: "Enum", 248: "Set", 249: "TinyBlob", 250: "MediumBlob", 251: "LongBlob", 252: "Blob", 253: "VarString", 254: "String", 255: "Geometry"}

// SynthTx is a JSON-serialisable description of a synthetic transaction.
type SynthTx struct {
	NowFile, NextFile string
	NowOff, NextOff   int64
	TS                int64
	NilEvents         bool
	Events            []SynthEv
}

// SynthEv is one synthetic event.
type SynthEv struct {
	Kind      int
	DB, Table string
	SQL       string
	QueryDB   string    `json:",omitempty"`
	Charset   *[3]int32 `json:",omitempty"`
	TS        int64
	Values    [][]SynthCol
	Idents    [][]SynthCol
	NilValues bool
}

// SynthCol is one synthetic column.
type SynthCol struct {
	Name   string
	Type   int
	Absent bool
	Nil    bool
	Data   []byte
}

func (s *SynthTx) build() *gobinlog.Transaction {
	t := &gobinlog.Transaction{NowPosition: gobinlog.Position{Filename: s.NowFile, Offset: s.NowOff}, NextPosition: gobinlog.Position{Filename: s.NextFile, Offset: s.NextOff}, Timestamp: s.TS}
	if !s.NilEvents {
		t.Events = []*gobinlog.StreamEvent{}
	}
	rows := func(in [][]SynthCol) []*gobinlog.RowData {
		var out []*gobinlog.RowData
		for _, r := range in {
			rd := &gobinlog.RowData{}
			for _, c := range r {
				cd := &gobinlog.ColumnData{Filed: c.Name, Type: gobinlog.ColumnType(c.Type), IsEmpty: c.Absent}
				if !c.Nil {
					cd.Data = append([]byte{}, c.Data...)
				}
				rd.Columns = append(rd.Columns, cd)
			}
			out = append(out, rd)
		}
		return out
	}
	for _, e := range s.Events {
		ev := &gobinlog.StreamEvent{Type: gobinlog.StatementType(e.Kind), Table: gobinlog.NewMysqlTableName(e.DB, e.Table), Timestamp: e.TS, Query: replication.Query{SQL: e.SQL, Database: e.QueryDB}}
		if e.Charset != nil {
			ev.Query.Charset = &replication.Charset{Client: e.Charset[0], Conn: e.Charset[1], Server: e.Charset[2]}
		}
		ev.RowValues = rows(e.Values)
		ev.RowIdentifies = rows(e.Idents)
		if ev.RowValues == nil && !e.NilValues {
			ev.RowValues = []*gobinlog.RowData{}
		}
		t.Events = append(t.Events, ev)
	}
	return t
}

func jget(m map[string]interface{}, k string) (interface{}, error) {
	v, ok := m[k]
	if !ok {
		return nil, fmt.Errorf("key %q missing", k)
	}
	return v, nil
}

func jstr(m map[string]interface{}, k string) (string, error) {
	v, err := jget(m, k)
	if err != nil {
		return "", err
	}
	s, ok := v.(string)
	if !ok {
		return "", fmt.Errorf("key %q is %T, want string", k, v)
	}
	return s, nil
}

func checkPosJSON(v interface{}, p gobinlog.Position, what string) error {
	m, ok := v.(map[string]interface{})
	if !ok {
		return fmt.Errorf("%s is %T, want object", what, v)
	}
	f, err := jstr(m, "filename")
	if err != nil {
		return fmt.Errorf("%s: %v", what, err)
	}
	if utf8.ValidString(p.Filename) && f != p.Filename {
		return fmt.Errorf("%s: filename %q, want %q", what, f, p.Filename)
	}
	o, ok := m["offset"].(json.Number)
	if !ok || o.String() != fmt.Sprint(p.Offset) {
		return fmt.Errorf("%s: offset %v, want %d", what, m["offset"], p.Offset)
	}
	return nil
}

func checkRowsJSON(v interface{}, rows []*gobinlog.RowData, what string) error {
	if v == nil {
		if len(rows) != 0 {
			return fmt.Errorf("%s is null, transaction has %d rows", what, len(rows))
		}
		return nil
	}
	arr, ok := v.([]interface{})
	if !ok || len(arr) != len(rows) {
		return fmt.Errorf("%s: %T with wrong length, want %d rows", what, v, len(rows))
	}
	for r, rd := range rows {
		rm, ok := arr[r].(map[string]interface{})
		if !ok {
			return fmt.Errorf("%s[%d] is %T", what, r, arr[r])
		}
		cv, err := jget(rm, "Columns")
		if err != nil {
			return fmt.Errorf("%s[%d]: %v", what, r, err)
		}
		cols, ok := cv.([]interface{})
		if !ok && cv != nil || len(cols) != len(rd.Columns) {
			return fmt.Errorf("%s[%d]: %d columns, want %d", what, r, len(cols), len(rd.Columns))
		}
		for k, c := range rd.Columns {
			cm, ok := cols[k].(map[string]interface{})
			if !ok {
				return fmt.Errorf("%s[%d] col %d is %T", what, r, k, cols[k])
			}
			w := fmt.Sprintf("%s[%d] col %d", what, r, k)
			name, err := jstr(cm, "filed")
			if err != nil {
				return fmt.Errorf("%s: %v", w, err)
			}
			if utf8.ValidString(c.Filed) && name != c.Filed {
				return fmt.Errorf("%s: name %q, want %q", w, name, c.Filed)
			}
			tn, err := jstr(cm, "type")
			if err != nil {
				return fmt.Errorf("%s: %v", w, err)
			}
			want, known := docTypeName[int(c.Type)]
			if !known {
				want = "unknown"
			}
			if tn != want {
				return fmt.Errorf("%s: type name %q, want %q", w, tn, want)
			}
			ie, ok := cm["isEmpty"].(bool)
			if !ok || ie != c.IsEmpty {
				return fmt.Errorf("%s: isEmpty %v, want %v", w, cm["isEmpty"], c.IsEmpty)
			}
			d, present := cm["data"]
			if !present {
				return fmt.Errorf("%s: data missing", w)
			}
			if c.Data == nil {
				if d != nil {
					return fmt.Errorf("%s: NULL rendered as %v, want null", w, d)
				}
				continue
			}
			ds, ok := d.(string)
			if !ok {
				return fmt.Errorf("%s: data is %T (%v), want a string (value %q)", w, d, d, clipB(c.Data))
			}
			if utf8.Valid(c.Data) && ds != string(c.Data) {
				return fmt.Errorf("%s: data %q, want %q", w, clipB([]byte(ds)), clipB(c.Data))
			}
		}
	}
	return nil
}

// checkTxJSON serialises a transaction and checks the structure of the result.
func checkTxJSON(tx *gobinlog.Transaction) error {
	var out []byte
	before := cloneTx(tx)
	defer func() { _ = before }()
	err := guard(func() (e error) { out, e = json.Marshal(tx); return })
	if err == nil && !txEqual(before, tx) {
		a, _ := json.Marshal(before)
		return fmt.Errorf("serialising the transaction changed it; it was %.400s and now serialises as %.400s", a, out)
	}
	if err != nil {
		return fmt.Errorf("json.Marshal failed: %v", err)
	}
	if !json.Valid(out) {
		return fmt.Errorf("output is not valid JSON: %.300s", out)
	}
	if !utf8.Valid(out) {
		return fmt.Errorf("output is not UTF-8 (JSON text is UTF-8, RFC 8259 section 8.1): %.300q", out)
	}
	// the direct MarshalJSON call (what cmd/binlogDump does) must give the same bytes, and bytes it
	// returned earlier must not change when further transactions are serialised
	var direct []byte
	if err := guard(func() (e error) { direct, e = tx.MarshalJSON(); return }); err != nil {
		return fmt.Errorf("MarshalJSON failed: %v", err)
	}
	if !bytes.Equal(direct, out) {
		// not necessarily the same bytes (encoding/json re-indents and re-escapes what a Marshaler returns,
		// e.g. '<' as \u003c): the same document
		if !json.Valid(direct) || !utf8.Valid(direct) {
			return fmt.Errorf("MarshalJSON() returned something that is not valid UTF-8 JSON: %.300q", direct)
		}
		var a, b interface{}
		da, db := json.NewDecoder(bytes.NewReader(direct)), json.NewDecoder(bytes.NewReader(out))
		da.UseNumber()
		db.UseNumber()
		if ea, eb := da.Decode(&a), db.Decode(&b); ea != nil || eb != nil || !reflect.DeepEqual(a, b) {
			return fmt.Errorf("MarshalJSON() and json.Marshal disagree: %.200s vs %.200s", direct, out)
		}
	}
	for i := range retainedJSON {
		r := &retainedJSON[i]
		if r.got != nil && !bytes.Equal(r.got, r.want) {
			w := r.want
			retainedJSON = [4]retainedDoc{}
			return fmt.Errorf("bytes returned by an earlier MarshalJSON call changed after a later call; they were %.200s", w)
		}
	}
	retainedJSON[retainedJSONNext%len(retainedJSON)] = retainedDoc{got: direct, want: append([]byte{}, direct...)}
	retainedJSONNext++
	dec := json.NewDecoder(bytesReader(out))
	dec.UseNumber()
	var top map[string]interface{}
	if err := dec.Decode(&top); err != nil {
		return fmt.Errorf("output does not decode as an object: %v", err)
	}
	now, err := jget(top, "nowPosition")
	if err != nil {
		return err
	}
	if err := checkPosJSON(now, tx.NowPosition, "nowPosition"); err != nil {
		return err
	}
	next, err := jget(top, "nextPosition")
	if err != nil {
		return err
	}
	if err := checkPosJSON(next, tx.NextPosition, "nextPosition"); err != nil {
		return err
	}
	evs, present := top["events"]
	if !present {
		return fmt.Errorf("key \"events\" missing")
	}
	var arr []interface{}
	if evs != nil {
		var ok bool
		if arr, ok = evs.([]interface{}); !ok {
			return fmt.Errorf("events is %T", evs)
		}
	}
	if len(arr) != len(tx.Events) {
		return fmt.Errorf("%d events serialised, transaction has %d", len(arr), len(tx.Events))
	}
	for i, e := range tx.Events {
		em, ok := arr[i].(map[string]interface{})
		if !ok {
			return fmt.Errorf("event %d is %T", i, arr[i])
		}
		w := fmt.Sprintf("event %d", i)
		kind, err := jstr(em, "type")
		if err != nil {
			return fmt.Errorf("%s: %v", w, err)
		}
		wk, known := docKindName[e.Type]
		if !known {
			wk = "unknown"
		}
		if kind != wk {
			return fmt.Errorf("%s: kind %q, want %q", w, kind, wk)
		}
		nm, err := jget(em, "name")
		if err != nil {
			return fmt.Errorf("%s: %v", w, err)
		}
		nmm, ok := nm.(map[string]interface{})
		if !ok {
			return fmt.Errorf("%s: name is %T", w, nm)
		}
		db, err1 := jstr(nmm, "db")
		tb, err2 := jstr(nmm, "table")
		if err1 != nil || err2 != nil {
			return fmt.Errorf("%s: table name incomplete: %v %v", w, err1, err2)
		}
		if utf8.ValidString(e.Table.DbName) && db != e.Table.DbName || utf8.ValidString(e.Table.TableName) && tb != e.Table.TableName {
			return fmt.Errorf("%s: table %q.%q, want %q.%q", w, db, tb, e.Table.DbName, e.Table.TableName)
		}
		if e.Query.SQL != "" {
			sql, err := jstr(em, "sql")
			if err != nil {
				return fmt.Errorf("%s: %v", w, err)
			}
			if utf8.ValidString(e.Query.SQL) && sql != e.Query.SQL {
				return fmt.Errorf("%s: sql %q, want %q", w, sql, e.Query.SQL)
			}
			if len(e.RowValues) == 0 && len(e.RowIdentifies) == 0 {
				continue
			}
			// an event that carries rows keeps every column in the document, statement text or not
			if _, ok := em["rowValues"]; !ok && len(e.RowValues) > 0 {
				return fmt.Errorf("%s: the event has %d row(s) of values (and statement text %q) but the document has no rowValues", w, len(e.RowValues), e.Query.SQL)
			}
			if _, ok := em["rowIdentifies"]; !ok && len(e.RowIdentifies) > 0 {
				return fmt.Errorf("%s: the event has %d identifying row(s) (and statement text %q) but the document has no rowIdentifies", w, len(e.RowIdentifies), e.Query.SQL)
			}
		}
		rv, p1 := em["rowValues"]
		ri, p2 := em["rowIdentifies"]
		if !p1 || !p2 {
			return fmt.Errorf("%s: rowValues / rowIdentifies missing", w)
		}
		if err := checkRowsJSON(rv, e.RowValues, w+" rowValues"); err != nil {
			return err
		}
		if err := checkRowsJSON(ri, e.RowIdentifies, w+" rowIdentifies"); err != nil {
			return err
		}
	}
	return nil
}

func init() {
	registerReplay("c20synth", func(raw json.RawMessage) error {
		var c SynthTx
		if err := json.Unmarshal(raw, &c); err != nil {
			return err
		}
		return checkTxJSON(c.build())
	})
	registerReplay("c20e2e", func(raw json.RawMessage) error {
		var c E2ECase
		if err := json.Unmarshal(raw, &c); err != nil {
			return err
		}
		return checkC20E2E(&c)
	})
}

func checkC20E2E(c *E2ECase) error {
	st, exp, _, err := runE2E(c)
	if err != nil {
		return err
	}
	for k, tx := range st.got {
		if err := checkTxJSON(tx); err != nil {
			return fmt.Errorf("delivered transaction %d: %v", k, err)
		}
		if k < len(exp) {
			if err := checkTxJSONModel(tx, &exp[k]); err != nil {
				return fmt.Errorf("delivered transaction %d: %v", k, err)
			}
		}
	}
	return nil
}

// checkTxJSONModel compares the document of an end-to-end transaction with what the master logged, for
// the one thing the document must keep apart whatever happened in between: SQL NULL is null, every other
// value (the empty string included) is a string holding the value's text.  It only judges documents whose
// shape matches the model (a different shape is C01's subject).
func checkTxJSONModel(tx *gobinlog.Transaction, e *hist.ExpTx) error {
	var out []byte
	if err := guard(func() (er error) { out, er = json.Marshal(tx); return }); err != nil {
		return nil // already judged by checkTxJSON
	}
	var top struct {
		Events []struct {
			RowValues, RowIdentifies []struct {
				Columns []struct {
					IsEmpty bool
					Data    *string
				}
			}
		}
	}
	if err := json.Unmarshal(out, &top); err != nil || len(top.Events) != len(e.Events) {
		return nil
	}
	for i := range e.Events {
		ev := &e.Events[i]
		for img, pair := range []struct {
			exp [][]hist.ExpCol
			got []struct {
				Columns []struct {
					IsEmpty bool
					Data    *string
				}
			}
		}{{ev.Identifies, top.Events[i].RowIdentifies}, {ev.Values, top.Events[i].RowValues}} {
			if len(pair.exp) != len(pair.got) {
				continue
			}
			for r := range pair.exp {
				if len(pair.exp[r]) != len(pair.got[r].Columns) {
					continue
				}
				for ci, ec := range pair.exp[r] {
					gc := pair.got[r].Columns[ci]
					w := fmt.Sprintf("event %d image %d row %d col %d (%s)", i, img, r, ci, ec.Name)
					if ec.Absent {
						continue
					}
					if ec.Null {
						if gc.Data != nil {
							return fmt.Errorf("%s: the master logged NULL, the document has %q", w, clipB([]byte(*gc.Data)))
						}
						continue
					}
					if gc.Data == nil {
						return fmt.Errorf("%s: the master logged a non-NULL value, the document has null", w)
					}
					if err := ec.Exp.Check([]byte(*gc.Data)); err != nil && !strings.Contains(*gc.Data, "\ufffd") {
						return fmt.Errorf("%s: %v", w, err)
					}
				}
			}
		}
	}
	return nil
}

func hostileString(rt *rapid.T, label string) string {
	switch rapid.IntRange(0, 5).Draw(rt, label+"_k") {
	case 0:
		return ""
	case 1:
		return rapid.SampledFrom([]string{"a\"b", "back\\slash", "<script>&amp;</script>", "\x00\x01\x1f", "  ", "tab\there\nnl\r", "'quoted'", "\xff\xfe invalid", "ok \xc3\x28", "😀",
			"\ufffd", "caf\ufffd au lait", "x\ufffdy \u00e9\u00e8", "\u00e9t\u00e9", "\u2028\u2029", "\u0080\u009f", "\ufeffbom",
			// text that is itself JSON (or HTML-safe JSON) - documents kept in TEXT columns, SQL that embeds them:
			// the characters backslash-u-0-0-3-c are data here, not an escape
			`\u003c`, `{"html":"\u003cb\u003e \u0026 co"}`, `\\u0026`, `a\u003e`, `\u2028`, `\ud800`, `\n\t\"`, `["\\","\""]`, `\u003C\u003E`}).Draw(rt, label)
	case 2:
		return string(rapid.SliceOfN(rapid.Byte(), 0, 20).Draw(rt, label))
	default:
		return string(refenc.Blob{K: rapid.IntRange(3, 7).Draw(rt, label+"_bk"), S: rapid.Uint32().Draw(rt, label+"_s"), N: rapid.IntRange(0, 40).Draw(rt, label+"_n")}.Bytes())
	}
}

func drawSynth(rt *rapid.T) *SynthTx {
	s := &SynthTx{NowFile: hostileString(rt, "now_file"), NextFile: hostileString(rt, "next_file"), NowOff: rapid.Int64().Draw(rt, "now_off"), NextOff: rapid.Int64Range(0, 1<<32).Draw(rt, "next_off"),
		TS: rapid.Int64Range(0, 1<<32).Draw(rt, "ts"), NilEvents: rapid.Bool().Draw(rt, "nil_events")}
	ne := rapid.IntRange(0, 4).Draw(rt, "nev")
	if rapid.IntRange(0, 11).Draw(rt, "long_tx") == 0 {
		ne = rapid.SampledFrom([]int{33, 63, 64, 65, 100, 129, 257, 600}).Draw(rt, "nev_long")
	}
	typeCodes := []int{}
	for k := range docTypeName {
		typeCodes = append(typeCodes, k)
	}
	typeCodes = append(typeCodes, 20, 100, 244, -1, 256)
	sortInts(typeCodes)
	rows := func(label string) [][]SynthCol {
		var out [][]SynthCol
		nr := rapid.IntRange(0, 3).Draw(rt, label+"_nr")
		if ne <= 4 && rapid.IntRange(0, 19).Draw(rt, label+"_many_rows") == 0 {
			nr = rapid.SampledFrom([]int{64, 100, 300}).Draw(rt, label+"_nr_many")
		}
		for r := 0; r < nr; r++ {
			var row []SynthCol
			nc := rapid.IntRange(0, 4).Draw(rt, label+"_nc")
			for c := 0; c < nc; c++ {
				col := SynthCol{Name: hostileString(rt, "col_name"), Type: rapid.SampledFrom(typeCodes).Draw(rt, "col_type"), Absent: rapid.Bool().Draw(rt, "absent")}
				switch rapid.IntRange(0, 3).Draw(rt, "data_k") {
				case 0:
					col.Nil = true
				case 1:
					col.Data = []byte{}
				default:
					col.Data = []byte(hostileString(rt, "data"))
				}
				row = append(row, col)
			}
			out = append(out, row)
		}
		return out
	}
	for i := 0; i < ne; i++ {
		e := SynthEv{Kind: rapid.IntRange(-1, 14).Draw(rt, "kind"), DB: hostileString(rt, "db"), Table: hostileString(rt, "table"), TS: rapid.Int64Range(0, 1<<32).Draw(rt, "ev_ts")}
		if rapid.Bool().Draw(rt, "is_sql") {
			e.SQL = hostileString(rt, "sql")
			e.QueryDB = hostileString(rt, "query_db")
			if rapid.Bool().Draw(rt, "has_charset") {
				cs := func(l string) int32 {
					if rapid.Bool().Draw(rt, l+"_common") {
						return rapid.SampledFrom([]int32{8, 33, 45, 63, 255, 5, 47, 48, 224, 83, 0}).Draw(rt, l)
					}
					return int32(rapid.IntRange(0, 65535).Draw(rt, l))
				}
				e.Charset = &[3]int32{cs("cs_client"), cs("cs_conn"), cs("cs_server")}
			}
		} else {
			e.Values = rows("values")
			e.Idents = rows("idents")
			e.NilValues = rapid.Bool().Draw(rt, "nil_values")
		}
		s.Events = append(s.Events, e)
	}
	return s
}

func TestC20(t *testing.T) {
	rec := recorder("C20")
	defer rec.Flush(t)
	o := gen.DefaultHistOpt(limits(), false)
	o.BigBase = false
	o.Scale = false
	o.ScaleTx = true
	rapidCheck(t, func(rt *rapid.T) {
		if rapid.IntRange(0, 2).Draw(rt, "part") == 0 {
			c := drawE2E(rt, o)
			rq := false
			if rapid.IntRange(0, 5).Draw(rt, "rows_query") == 0 {
				// a master with binlog_rows_query_log_events=ON: the statement text stands in front of the
				// table maps.  Whether the replica refuses such a stream or accepts it, what it delivers
				// must serialise with every column
				for ui := range c.H.Units {
					u := &c.H.Units[ui]
					for ii := range u.Items {
						if u.Items[ii].Kind == hist.IRows {
							q := hist.Item{Kind: hist.IUnknownEvent, EvType: refenc.EvRowsQuery, Body: refenc.RowsQueryBody("INSERT INTO t VALUES (" + hostileString(rt, "rows_query_text") + ")"), TS: u.Items[ii].TS}
							u.Items = append(u.Items[:ii], append([]hist.Item{q}, u.Items[ii:]...)...)
							rq = true
							break
						}
					}
					if rq {
						break
					}
				}
			}
			st, exp, _, err := runE2E(c)
			if err != nil {
				rt.Skip(err.Error())
			}
			rec.Case(len(st.got) > 0, c, "end-to-end")
			if rq {
				rec.Class("e2e-with-rows-query-event")
			}
			for k, tx := range st.got {
				rec.Class("e2e-transactions")
				err := checkTxJSON(tx)
				if err == nil && k < len(exp) {
					err = checkTxJSONModel(tx, &exp[k])
				}
				if err != nil {
					err = fmt.Errorf("delivered transaction %d: %v", k, err)
					rec.Violation("c20e2e", c, "", err)
					rt.Fatalf("C20 violation: %v", err)
				}
			}
			return
		}
		s := drawSynth(rt)
		nt := len(s.Events) > 0
		cls := []string{"synthetic"}
		if s.NilEvents && len(s.Events) == 0 {
			cls = append(cls, "nil-events")
		}
		rec.Case(nt, s, cls...)
		if nt {
			rec.Sample(s)
		}
		if err := checkTxJSON(s.build()); err != nil {
			rec.Violation("c20synth", s, "", err)
			rt.Fatalf("C20 violation: %v", err)
		}
	})
}

type retainedDoc struct{ got, want []byte }

var retainedJSON [4]retainedDoc
var retainedJSONNext int
