package props

import (
	"bytes"
	"encoding/json"
	"fmt"
	"runtime"
	"sync"
	"testing"

	"github.com/Breeze0806/gobinlog"
	"pgregory.net/rapid"

	"verif/fakemaster"
	"verif/gen"
	"verif/hist"
	"verif/refenc"
)

// StabilityCase: a history with values around the driver's buffer size, a
// pacing, and whether the handler overwrites what it receives.
type StabilityCase struct {
	E        E2ECase
	Scribble bool
	// FailAt > 0: the handler refuses its FailAt-th transaction with a temporary error, after it has looked at
	// it (and scribbled over it); whatever the library does next, nobody may be handed the scribbled copy
	FailAt int `json:",omitempty"`
	// Leaves: the handler keeps only the value byte slices it was handed and lets go of the transaction,
	// its events, rows and columns (the garbage collector runs after every delivery); the slices are
	// verified when the stream has ended
	Leaves bool `json:",omitempty"`
}

// scribbleCol overwrites one delivered column in place: its bytes, its name and its absent flag.
func scribbleCol(cd *gobinlog.ColumnData) {
	for i := range cd.Data {
		cd.Data[i] = 0xEE
	}
	cd.Filed = "scribbled:" + cd.Filed
	cd.IsEmpty = !cd.IsEmpty
}

func cloneTx(t *gobinlog.Transaction) *gobinlog.Transaction {
	c := *t
	c.Events = nil
	if t.Events != nil {
		c.Events = make([]*gobinlog.StreamEvent, len(t.Events))
	}
	for i, e := range t.Events {
		if e == nil {
			continue
		}
		ec := *e
		if e.Query.Charset != nil {
			cs := *e.Query.Charset
			ec.Query.Charset = &cs
		}
		cr := func(rows []*gobinlog.RowData) []*gobinlog.RowData {
			if rows == nil {
				return nil
			}
			out := make([]*gobinlog.RowData, len(rows))
			for j, r := range rows {
				if r == nil {
					continue
				}
				rc := &gobinlog.RowData{}
				if r.Columns != nil {
					rc.Columns = make([]*gobinlog.ColumnData, len(r.Columns))
				}
				for k, col := range r.Columns {
					if col == nil {
						continue
					}
					cc := *col
					if col.Data != nil {
						cc.Data = append([]byte{}, col.Data...)
					}
					rc.Columns[k] = &cc
				}
				out[j] = rc
			}
			return out
		}
		ec.RowValues = cr(e.RowValues)
		ec.RowIdentifies = cr(e.RowIdentifies)
		c.Events[i] = &ec
	}
	return &c
}

// eachData visits every delivered Data slice of a transaction.
func eachData(t *gobinlog.Transaction, f func(ev, img, row, col int, c *gobinlog.ColumnData)) {
	for i, e := range t.Events {
		for r, rd := range e.RowIdentifies {
			for k, c := range rd.Columns {
				f(i, 0, r, k, c)
			}
		}
		for r, rd := range e.RowValues {
			for k, c := range rd.Columns {
				f(i, 1, r, k, c)
			}
		}
	}
}

func checkC08(c *StabilityCase) error {
	l, start, su, err := c.E.layout()
	if err != nil {
		return fmt.Errorf("harness: %v", err)
	}
	exp := l.Expected(start, su)
	ss, err := newSession(c.E.H.Tables, 99, start)
	if err != nil {
		return fmt.Errorf("harness: %v", err)
	}
	defer ss.close()
	var retained, snaps []*gobinlog.Transaction
	var herr error
	calls := 0
	var leaves, leafWant [][]byte
	handler := func(tx *gobinlog.Transaction, st *attemptState) error {
		k := len(retained)
		// (1) what arrives now still equals the model, whatever was done to earlier deliveries
		if k < len(exp) && herr == nil {
			if err := compareTx(tx, &exp[k], k, true); err != nil {
				herr = fmt.Errorf("at delivery: %v", err)
			}
		}
		snap := cloneTx(tx)
		if c.Scribble {
			// (2) overwrite every value in place, checking just before each overwrite that the
			// value has not been changed by the overwrites done so far
			sc := cloneTx(tx)
			_ = sc
			eachData(tx, func(ev, img, row, col int, cd *gobinlog.ColumnData) {
				var want *gobinlog.ColumnData
				if img == 0 {
					want = snap.Events[ev].RowIdentifies[row].Columns[col]
				} else {
					want = snap.Events[ev].RowValues[row].Columns[col]
				}
				if herr == nil && !colEqual(cd, want) {
					herr = fmt.Errorf("tx %d event %d row %d col %d: column changed from %+v to %+v when other columns of the delivery were overwritten", k, ev, row, col, *want, *cd)
				}
				scribbleCol(cd)
			})
		}
		calls++
		if c.FailAt > 0 && calls == c.FailAt {
			return tempErr{}
		}
		if c.Leaves {
			eachData(tx, func(_, _, _, _ int, cd *gobinlog.ColumnData) {
				if cd.Data != nil {
					leaves = append(leaves, cd.Data)
					leafWant = append(leafWant, append([]byte{}, cd.Data...))
				}
			})
			retained = append(retained, snap) // the transaction itself is let go
			snaps = append(snaps, snap)
			runtime.GC()
			return nil
		}
		retained = append(retained, tx)
		snaps = append(snaps, snap)
		return nil
	}
	st := ss.run(attempt{l: l, pacing: c.E.Pacing, handler: handler, plan: &fakemaster.ConnPlan{Chop: c.E.Chop}, noSnapshot: true, noMangle: true, noRetain: c.Leaves})
	st.drainLib()
	if err := st.panicErr(); err != nil {
		return err
	}
	if !st.served {
		return fmt.Errorf("harness: dump request not servable")
	}
	if herr != nil {
		return herr
	}
	if c.FailAt > 0 && c.FailAt <= len(exp) {
		if len(retained) != c.FailAt-1 {
			return fmt.Errorf("%d transactions accepted, the handler refused number %d [stream err %v]", len(retained), c.FailAt, st.streamErr)
		}
	} else if len(retained) != len(exp) {
		return fmt.Errorf("%d transactions delivered, want %d [stream err %v]", len(retained), len(exp), st.streamErr)
	}
	verify := func(when string) error {
		for k, tx := range retained {
			want := snaps[k]
			if c.Scribble {
				want = cloneTx(snaps[k])
				eachData(want, func(_, _, _, _ int, cd *gobinlog.ColumnData) { scribbleCol(cd) })
			}
			if !txEqual(tx, want) {
				a, _ := json.Marshal(want)
				b, _ := json.Marshal(tx)
				return fmt.Errorf("%s: retained transaction %d changed:\n was: %.500s\n now: %.500s", when, k, a, b)
			}
		}
		return nil
	}
	if err := verify("after the stream ended"); err != nil {
		return err
	}
	if c.Leaves {
		runtime.GC()
		for i := range leaves {
			if !bytes.Equal(leaves[i], leafWant[i]) {
				return fmt.Errorf("a value kept on its own (its transaction was let go) changed after the stream went on: it was %q, now %q", clipB(leafWant[i]), clipB(leaves[i]))
			}
		}
	}
	// serialising what was kept is a read: it changes nothing
	for _, tx := range retained {
		guard(func() error { _, e := json.Marshal(tx); return e })
	}
	if err := verify("after the retained transactions were serialised to JSON"); err != nil {
		return err
	}
	// (3a) a second attempt on the SAME streamer, from the start again: whatever the library recycles
	// between attempts must not reach into transactions it handed out earlier
	ss.s.SetBinlogPosition(gobinlog.Position{Filename: start.File, Offset: start.Off})
	st1b := ss.run(attempt{l: l})
	st1b.drainLib()
	if err := st1b.panicErr(); err != nil {
		return err
	}
	if err := compareTxs(st1b.got, exp, true); err != nil {
		return fmt.Errorf("second attempt on the same streamer: %v", err)
	}
	if err := verify("after a second attempt on the same streamer"); err != nil {
		return err
	}
	// (3) a second, unrelated stream in the same process (new connection, new buffers)
	ss2, err := newSession(c.E.H.Tables, 98, start)
	if err == nil {
		st2 := ss2.run(attempt{l: l})
		st2.drainLib()
		ss2.close()
		if err := compareTxs(st2.got, exp, true); err != nil {
			return fmt.Errorf("second stream after the first one's values were overwritten: %v", err)
		}
	}
	return verify("after a second stream ran")
}

// checkC08Twice runs the scenario in two streamers of one process at the same time (one of them with the
// other handler behaviour): what one streamer delivered must not depend on what the other one is doing.
func checkC08Twice(c *StabilityCase) error {
	raw, err := json.Marshal(c)
	if err != nil {
		return fmt.Errorf("harness: %v", err)
	}
	var c2 StabilityCase
	if err := json.Unmarshal(raw, &c2); err != nil {
		return fmt.Errorf("harness: %v", err)
	}
	c2.Scribble = !c.Scribble
	if c2.Scribble {
		c2.Leaves = false
	}
	errs := make([]error, 2)
	var wg sync.WaitGroup
	for i, x := range []*StabilityCase{c, &c2} {
		wg.Add(1)
		go func(i int, x *StabilityCase) {
			defer wg.Done()
			errs[i] = checkC08(x)
		}(i, x)
	}
	wg.Wait()
	for i, e := range errs {
		if e != nil {
			return fmt.Errorf("streamer %d of 2 running at the same time: %v", i, e)
		}
	}
	return nil
}

func init() {
	registerReplay("c08", func(raw json.RawMessage) error {
		var c StabilityCase
		if err := json.Unmarshal(raw, &c); err != nil {
			return err
		}
		return checkC08(&c)
	})
	registerReplay("c08twice", func(raw json.RawMessage) error {
		var c StabilityCase
		if err := json.Unmarshal(raw, &c); err != nil {
			return err
		}
		// a schedule-dependent failure may need several tries
		for i := 0; i < 20; i++ {
			if err := checkC08Twice(&c); err != nil {
				return err
			}
		}
		return nil
	})
}

// sizedHistory is a run of single-row inserts (id INT, b LONGBLOB, tail VARCHAR) whose rows events arrive
// in packets of exactly the wanted payload lengths, in that order.
func sizedHistory(cfg hist.Cfg, payloads []int) (*hist.History, error) {
	tb := hist.Table{DB: "d", Name: "sized", ID: 41, Cols: []hist.Column{{Name: "id", Type: refenc.TLong}, {Name: "b", Type: refenc.TBlob, Len: 4, Nullable: true},
		{Name: "tail", Type: refenc.TVarchar, Len: 40, Nullable: true}}}
	build := func(ns []int) *hist.History {
		h := &hist.History{Cfg: cfg, Tables: []hist.Table{tb}, FirstFile: "bin.000001"}
		for i, n := range ns {
			ev := hist.RowsEv{Table: 0, Kind: 0, Present1: []bool{true, true, true}, TS: uint32(50 + i),
				Rows: []hist.Row{{After: []hist.Value{{U: uint64(i)}, {B: refenc.Blob{K: 4, S: uint32(n + i), N: n}}, {B: refenc.Lit([]byte(fmt.Sprintf("tail %d", i)))}}}}}
			h.Units = append(h.Units, hist.Unit{Kind: hist.UTxXID, Begin: &hist.Query{DB: "d", SQL: "BEGIN", TS: uint32(50 + i)},
				Items: []hist.Item{{Kind: hist.IRows, Maps: []int{0}, Rows: []hist.RowsEv{ev}, TS: uint32(50 + i)}}, XID: uint64(i + 1), TS: uint32(50 + i)})
		}
		h.Base = h.MinBase()
		return h
	}
	ns := make([]int, len(payloads))
	for i := range ns {
		ns[i] = 10
	}
	l, err := build(ns).Lay()
	if err != nil {
		return nil, err
	}
	k := 0
	for _, e := range l.Events {
		if e.Type == hist.RowsEventType(0, cfg.RowsV2) && k < len(ns) {
			ns[k] = 10 + payloads[k] - 1 - len(e.Bytes) // the payload has one leading status byte
			if ns[k] < 0 {
				ns[k] = 0
			}
			k++
		}
	}
	return build(ns), nil
}

// packetSizes are payload lengths around the sizes at which a transport changes how it buffers: the
// driver's 4 KiB read buffer and its multiples, and the largest buffer it keeps (256 KiB) with the
// 4 KiB rounding steps below and above it.
var packetSizes = []int{4095, 4096, 4097, 8191, 8192, 8193, 12288, 65535, 65536, 258047, 258048, 258049, 262143, 262144, 262145, 266239, 266240, 266241}

func TestC08(t *testing.T) {
	rec := recorder("C08")
	defer rec.Flush(t)
	o := gen.DefaultHistOpt(limits(), thorough())
	o.MaxUnits, o.MaxItems, o.MaxRowsEv, o.MaxRows, o.MaxCols, o.MaxTables = 6, 3, 3, 3, 5, 2
	o.BigBase = false
	o.Scale = false
	o.ScaleTx = true
	o.Kinds = []hist.UnitKind{hist.UTxXID, hist.UTxXID, hist.UTxCommit, hist.UAutoRows, hist.UDDL}
	o.Col = gen.ColumnOpt{Only: []byte{refenc.TVarchar, refenc.TBlob, refenc.TTimestamp, refenc.TTimestamp2, refenc.TLong, refenc.TString, refenc.TBit, refenc.TNewDecimal, refenc.TGeometry}}
	// second shape: every supported type, and every second value is the zero / empty / null value of its
	// type - the texts a decoder is most tempted to hand out from one shared place
	oc := o
	oc.Lim.Constants = true
	oc.Lim.SmallJSON = true
	oc.MaxRows = 4
	oc.Col = gen.ColumnOpt{}
	rapidCheck(t, func(rt *rapid.T) {
		ho := o
		if rapid.IntRange(0, 2).Draw(rt, "constants_shape") == 0 {
			ho = oc
		}
		c := &StabilityCase{Scribble: rapid.Bool().Draw(rt, "scribble")}
		if rapid.IntRange(0, 7).Draw(rt, "sized_packets") == 0 {
			// a run of 3-8 packets whose lengths sit on and next to the transport's buffer sizes, in any order
			var sizes []int
			for i, n := 0, rapid.IntRange(3, 8).Draw(rt, "sized_n"); i < n; i++ {
				sizes = append(sizes, rapid.SampledFrom(packetSizes).Draw(rt, "packet_size"))
			}
			cfg := gen.Config(rt)
			cfg.NHeaderSizes = rapid.IntRange(38, 60).Draw(rt, "nsizes")
			h, err := sizedHistory(cfg, sizes)
			if err != nil {
				rt.Skip(err.Error())
			}
			c.E.H = h
		} else {
			c.E.H = gen.History(rt, ho)
		}
		c.E.Pacing = rapid.IntRange(0, 1).Draw(rt, "pacing")
		if !c.Scribble && rapid.IntRange(0, 3).Draw(rt, "keep_leaves") == 0 {
			c.Leaves = true
		}
		if rapid.IntRange(0, 5).Draw(rt, "handler_refuses") == 0 {
			c.FailAt = rapid.IntRange(1, 4).Draw(rt, "fail_at")
		}
		if rapid.IntRange(0, 2).Draw(rt, "chop") == 0 {
			c.E.Chop = rapid.Uint32Range(1, 1<<32-1).Draw(rt, "chop_seed")
		}
		// push some string / blob values to 3000..9000 bytes so that packets straddle the driver's 4 KiB buffer
		big, zeroTS := 0, 0
		for ui := range c.E.H.Units {
			for ii := range c.E.H.Units[ui].Items {
				it := &c.E.H.Units[ui].Items[ii]
				for ri := range it.Rows {
					r := &it.Rows[ri]
					tb := &c.E.H.Tables[r.Table]
					for rowi := range r.Rows {
						for _, img := range [][]hist.Value{r.Rows[rowi].Before, r.Rows[rowi].After} {
							for ci := range img {
								col := tb.Cols[ci]
								v := &img[ci]
								if v.Null {
									continue
								}
								switch col.Type {
								case refenc.TVarchar:
									if col.Len >= 9000 && rapid.IntRange(0, 2).Draw(rt, "grow") == 0 {
										v.B = refenc.Blob{K: rapid.IntRange(3, 7).Draw(rt, "grow_k"), S: rapid.Uint32().Draw(rt, "grow_s"), N: rapid.IntRange(3000, 9000).Draw(rt, "grow_n")}
									}
								case refenc.TBlob, refenc.TGeometry:
									if col.Len >= 2 && rapid.IntRange(0, 2).Draw(rt, "grow") == 0 {
										v.B = refenc.Blob{K: rapid.IntRange(3, 7).Draw(rt, "grow_k"), S: rapid.Uint32().Draw(rt, "grow_s"), N: rapid.IntRange(3000, 9000).Draw(rt, "grow_n")}
									}
								case refenc.TTimestamp, refenc.TTimestamp2:
									if rapid.Bool().Draw(rt, "zero_ts") {
										v.U, v.Us = 0, 0
									}
								}
								if v.B.Len() >= 100 {
									big++
								}
								if (col.Type == refenc.TTimestamp || col.Type == refenc.TTimestamp2) && v.U == 0 {
									zeroTS++
								}
							}
						}
					}
				}
			}
		}
		l, start, su, err := c.E.layout()
		if err != nil {
			rt.Skip(err.Error())
		}
		exp := l.Expected(start, su)
		nt := (len(exp) >= 3 && big >= 1) || zeroTS >= 2
		cls := []string{fmt.Sprintf("scribble=%v", c.Scribble), fmt.Sprintf("pacing=%d", c.E.Pacing)}
		if big > 0 {
			cls = append(cls, "value>=100B")
		}
		if zeroTS >= 2 {
			cls = append(cls, "zero-timestamp-twice")
		}
		maxPkt := 0
		for _, e := range l.Events {
			if len(e.Bytes) > maxPkt {
				maxPkt = len(e.Bytes)
			}
		}
		if maxPkt > 4096 {
			cls = append(cls, "packet>4KiB")
		}
		twice := c.FailAt == 0 && rapid.IntRange(0, 7).Draw(rt, "two_streamers_at_once") == 0
		if twice {
			cls = append(cls, "two-streamers-at-the-same-time")
		}
		rec.Case(nt, c, cls...)
		if nt {
			rec.Sample(c)
		}
		if twice {
			journal("C08", "c08twice", c)
			if err := checkC08Twice(c); err != nil {
				rec.Violation("c08twice", c, "", err)
				rt.Fatalf("C08 violation: %v", err)
			}
			return
		}
		journal("C08", "c08", c)
		if err := checkC08(c); err != nil {
			rec.Violation("c08", c, "", err)
			rt.Fatalf("C08 violation: %v", err)
		}
	})
}
