package props

import (
	"context"
	"fmt"
	"runtime"
	"strings"
	"sync"
	"sync/atomic"
	"time"

	"github.com/Breeze0806/gobinlog"

	"verif/fakemaster"
	"verif/hist"
	"verif/sched"
)

// Handler modes of a stop scenario.
const (
	HandlerFast  = 0
	HandlerSlow  = 1
	HandlerGated = 2 // blocked at call GateCall until the requested reader state was seen
)

// StopCase is one C05 / C06 scenario: a small history, one stop cause at one
// stop point, a pacing (which decides the reader's blocking state at the stop)
// and a handler mode.
type StopCase struct {
	H        *hist.History
	Fault    Fault // kinds: master faults, client faults, connect faults, "cancel_gate", "deadline", "none" (master EOF at the end)
	Pacing   int   // lock-step: reader waits for the network at the stop; far ahead: reader holds an event while the handler is gated
	Handler  int
	GateCall int  // 1-based handler call that is gated (HandlerGated)
	PrevOK   bool // a complete successful attempt (and one Error() call) precedes the scenario on the same streamer
	SlowN    int  // HandlerSlow: yields per call
	// PrevCancel: the preceding attempt (if PrevOK) was ended by caller cancellation instead of the master's EOF
	PrevCancel bool `json:",omitempty"`
	// LongCallMs: the first handler call takes this long (a sink that blocks for many seconds) while the
	// master's further packets are already waiting; everything afterwards must go on as if nothing had happened
	LongCallMs int `json:",omitempty"`
	// PrevFail: the preceding attempt (if PrevOK) was ended by a handler failure (reported correctly, one hopes)
	PrevFail bool `json:",omitempty"`
	// schedule perturbation at the library's log calls (through the exported SetLogger)
	PerturbWho    int `json:",omitempty"` // 0 none, 1 reader goroutine, 2 Stream goroutine, 3 both
	PerturbMicros int `json:",omitempty"`
	PerturbLevel  int `json:",omitempty"` // 1 error logs, 2 + info, 3 + debug
	// IdleMs: the master pauses this long in front of its third packet (a long-lived, mostly idle attempt:
	// anything the library does periodically in the background gets a chance to run)
	IdleMs int `json:",omitempty"`
	// QuietAfter: once the stop cause has fired on the client side (cancellation, handler / mapper failure) or the
	// offending event has been sent, the master sends nothing more and keeps the connection open: whatever the
	// library has to wake up or close, it must do by itself
	QuietAfter bool `json:",omitempty"`
	// LateDeadlineMs > 0: the caller's context carries this deadline.  When it had not expired by the time Stream
	// returned, the harness waits until it has before it calls Error(): an expired context of the caller does not
	// change why the stream ended
	LateDeadlineMs int `json:",omitempty"`
	// CustomCtx: the caller's context is of a type of the caller's own (its own Done channel), not one of the
	// standard library's: deriving from it costs the standard library a watcher goroutine, which has to go
	// away with the derived context
	CustomCtx bool `json:",omitempty"`
	// HoldMs: how long the gated handler stays blocked after the cancellation (cancel_gate; 0 = 30 ms)
	HoldMs int `json:",omitempty"`
	// Chop != 0: the master's bytes arrive in pieces (see fakemaster.ConnPlan.Chop)
	Chop uint32 `json:",omitempty"`
	// ErrLater: the caller does not ask Error() when Stream has returned (one who cancelled has no reason to):
	// the connection must be closed and the library's goroutines gone all the same; Error() is called, three
	// times, only after that has been judged
	ErrLater bool `json:",omitempty"`
}

// ownCtx is a context type of the caller's own: it has its own Done channel (closed when the wrapped
// context ends) and hides the wrapped context's identity from context.WithCancel.
type ownCtx struct {
	inner context.Context
	done  chan struct{}
}

func newOwnCtx(inner context.Context) *ownCtx {
	c := &ownCtx{inner: inner, done: make(chan struct{})}
	go func() { <-inner.Done(); close(c.done) }()
	return c
}

func (c *ownCtx) Deadline() (time.Time, bool) { return c.inner.Deadline() }
func (c *ownCtx) Done() <-chan struct{}       { return c.done }
func (c *ownCtx) Err() error {
	select {
	case <-c.done:
		return c.inner.Err()
	default:
		return nil
	}
}
func (c *ownCtx) Value(key interface{}) interface{} { return nil }

// StopObs is everything observed.
type StopObs struct {
	Delivered       int
	StreamReturned  bool
	StreamErr       error
	Stalled         string // non-empty: blocked-state proof that Stream does not return
	Inconclusive    string
	CallerCancelled bool // the harness cancelled the context before Stream returned
	ReaderAtStop    string
	StateReached    bool
	PeerClosed      bool
	PeerInitiated   bool
	MasterClosed    bool // the cause made the master close first
	Leaked          []string
	ErrorResults    []error
	ErrorBlocked    string
	MaxInHandler    int32
	AfterReturn     int32
	LateCalls       int32
	DumpSeen        bool
	CauseFired      bool // the stop cause demonstrably reached the library
	TotalTx         int  // deliveries of the fault-free history from the start position
	Panicked        string
}

const stopBound = 3 * time.Second

// blockedProof probes twice and reports whether goroutine gid is parked in the
// same blocked state both times while no library goroutine is runnable.
func blockedProof(gid int, baseline map[int]bool) (state string, proven bool) {
	var states [2]string
	for i := 0; i < 2; i++ {
		gs := sched.Probe()
		g, ok := sched.Find(gs, gid)
		if !ok {
			return "gone", false
		}
		states[i] = g.State
		if !sched.Blocked(g.State) {
			return g.State, false
		}
		for _, lg := range sched.Lib(gs, baseline) {
			if !sched.Blocked(lg.State) {
				return g.State + " (library goroutine " + lg.State + ")", false
			}
		}
		if i == 0 {
			time.Sleep(300 * time.Millisecond)
		}
	}
	if states[0] != states[1] {
		return states[0] + "/" + states[1], false
	}
	top := ""
	if g, ok := sched.Find(sched.Probe(), gid); ok && len(g.Frames) > 0 {
		for _, f := range g.Frames {
			if strings.Contains(f, "Breeze0806") {
				top = f
				break
			}
		}
	}
	return states[0] + " in " + top, true
}

func readerState(st *attemptState) string {
	for _, g := range sched.Lib(sched.Probe(), st.baseline) {
		if sched.HasFrame(g, "startDumpFromBinlogPosition") {
			if g.State == "select" || g.State == "chan send" {
				return "holding-event"
			}
			if g.State == "IO wait" {
				return "waiting-network"
			}
			return g.State
		}
	}
	return "gone"
}

// rowsQueryFault: the injected "unsupported" event is the rows-query event.  It carries nothing but the text of
// the statement whose row changes follow (a comment for humans): a replica that refuses it ends the attempt
// with an error like for every event it cannot handle, but one that skips it like the other informational
// events loses nothing and breaks none of the properties - unlike the INTVAR / RAND events, whose values the
// following statement depends on.
func rowsQueryFault(f Fault) bool { return f.Kind == "unsupported" && f.Sub%3 == 0 }

// runStop executes one scenario.
func runStop(c *StopCase) *StopObs {
	obs := &StopObs{}
	l, err := c.H.Lay()
	if err != nil {
		obs.Inconclusive = "harness: " + err.Error()
		return obs
	}
	start := hist.Pos{File: c.H.FirstFile, Off: c.H.Base}
	network := "tcp"
	if c.Fault.Kind == "cancel_dial" {
		network = "verifdial"
	}
	var dsnParams []string
	if c.Fault.Kind == "dump_unsendable" {
		// the session is set up, then the dump command itself cannot be sent: it is larger than the packet limit
		// the caller configured (64 bytes leave room for the checksum statement but not for this file name)
		dsnParams = []string{"maxAllowedPacket=64"}
		start.File = strings.Repeat("long-binlog-base-name-", 3) + ".000001"
	}
	ss, err := newSessionNet(c.H.Tables, 55, start, network, dsnParams...)
	if err != nil {
		obs.Inconclusive = "harness: " + err.Error()
		return obs
	}
	defer ss.close()
	if c.PrevOK && c.Fault.Kind != "cancel_dial" {
		var st0 *attemptState
		if c.PrevCancel {
			pctx, pcancel := context.WithCancel(context.Background())
			n := 0
			st0 = ss.run(attempt{l: l, ctx: pctx, fallbackCancel: pcancel, handler: func(tx *gobinlog.Transaction, st *attemptState) error {
				n++
				if n == 1 {
					pcancel()
				}
				return nil
			}})
			pcancel()
		} else if c.PrevFail {
			st0 = ss.run(attempt{l: l, handler: func(tx *gobinlog.Transaction, st *attemptState) error { return errInjected }})
		} else {
			st0 = ss.run(attempt{l: l})
		}
		st0.drainLib()
		done := make(chan struct{})
		go func() { ss.s.Error(); close(done) }()
		select {
		case <-done:
		case <-time.After(stopBound):
			obs.Inconclusive = "Error() after the preceding clean attempt did not return (judged by the scenario without PrevOK)"
			return obs
		}
		ss.s.SetBinlogPosition(gobinlog.Position{Filename: start.File, Offset: start.Off})
	}

	f := c.Fault
	spec := AttemptSpec{Fault: f, Pacing: c.Pacing}
	var at attempt
	cleanup := func() {}
	ctx, cancel := context.WithCancel(context.Background())
	defer cancel()
	if c.LateDeadlineMs > 0 {
		var lcancel context.CancelFunc
		ctx, lcancel = context.WithTimeout(ctx, time.Duration(c.LateDeadlineMs)*time.Millisecond)
		defer lcancel()
	}
	var cancelled, quiet int32
	doCancel := func() { atomic.StoreInt32(&cancelled, 1); atomic.StoreInt32(&quiet, 1); cancel() }
	plan := &fakemaster.ConnPlan{Chop: c.Chop}
	var stRef atomic.Value
	handlerBlocked := int32(0)

	switch f.Kind {
	case "refuse":
		ss.m.CloseListener()
		at = attempt{l: l, pacing: c.Pacing}
	case "dump_unsendable":
		at = attempt{l: l, pacing: c.Pacing}
	case "err_handshake":
		plan.HandshakeErr = fakemaster.ErrPacket(1040, "08004", "Too many connections")
		at = attempt{l: l, pacing: c.Pacing}
	case "err_query":
		plan.QueryErr = fakemaster.ErrPacket(1227, "42000", "Access denied; you need (at least one of) the SUPER privilege(s)")
		at = attempt{l: l, pacing: c.Pacing}
	case "cancel_handshake":
		plan.StallAccept = make(chan struct{})
		at = attempt{l: l, pacing: c.Pacing}
	case "cancel_query":
		// the context is cancelled while the replica waits for the answer to its first statement; the
		// master answers a little later
		plan.OnQuery = func(n int) {
			if n == 1 {
				doCancel()
				time.Sleep(time.Duration(f.At) * 100 * time.Microsecond)
			}
		}
		at = attempt{l: l, pacing: c.Pacing}
	case "deadline":
		var dcancel context.CancelFunc
		ctx, dcancel = context.WithTimeout(ctx, time.Duration(f.At)*200*time.Microsecond)
		defer dcancel()
		atomic.StoreInt32(&cancelled, 1) // a deadline counts as a caller-side stop
		at = attempt{l: l, pacing: c.Pacing}
	case "cancel_dial":
		// the context is cancelled exactly between the TCP connect and the driver's first look at it
		dialHook.Store(func() { doCancel() })
		defer dialHook.Store(func() {})
		at = attempt{l: l, pacing: c.Pacing}
	case "cancel_gate", "none":
		at = attempt{l: l, pacing: c.Pacing}
	case "cancel_out":
		at = attempt{l: l, pacing: c.Pacing}
	case "cancel_log":
		var n int32
		logHook.Store(func(reader bool) {
			if !reader && atomic.AddInt32(&n, 1) == int32(f.At) {
				doCancel()
			}
		})
		cleanup = func() { logHook.Store(func(bool) {}) }
		at = attempt{l: l, pacing: c.Pacing}
	case "handler_panic":
		// the handler panics in its At-th call; the caller recovers (the harness goroutine that runs Stream)
		np := 0
		at = attempt{l: l, pacing: c.Pacing, handler: func(tx *gobinlog.Transaction, st *attemptState) error {
			np++
			if np == f.At {
				obs.CauseFired = true
				atomic.StoreInt32(&quiet, 1)
				panic(handlerPanic{})
			}
			return nil
		}}
	case "handler_err_cancel":
		nn := 0
		at = attempt{l: l, pacing: c.Pacing, handler: func(tx *gobinlog.Transaction, st *attemptState) error {
			nn++
			if nn == f.At {
				doCancel()
				return handlerErr(f)
			}
			return nil
		}}
	default:
		at, cleanup = faultAttempt(ss, l, spec)
		if at.ctx != nil { // cancel_in builds its own context: rebuild on ours
			at.ctx = nil
		}
	}
	defer cleanup()
	at.ctx = ctx
	if c.CustomCtx {
		at.ctx = newOwnCtx(ctx)
	}
	at.plan = plan
	if at.plan.Gate == nil {
		at.plan.Gate = func(i int, s *fakemaster.Step) bool {
			st, _ := stRef.Load().(*attemptState)
			if c.Pacing == PaceLockStep && i > 0 && st != nil {
				// lock-step: wait until the library is parked; a handler that is blocked in the gate counts as parked
				deadline := time.Now().Add(2 * time.Second)
				for time.Now().Before(deadline) {
					if atomic.LoadInt32(&handlerBlocked) == 1 {
						// while the handler is gated the master sends nothing: the reader keeps waiting for the network
						time.Sleep(50 * time.Microsecond)
						continue
					}
					if st.waitQuiescent(5 * time.Millisecond) {
						break
					}
					select {
					case <-st.streamDone:
						return true
					default:
					}
				}
			}
			if f.Kind == "cancel_out" && i == f.At {
				doCancel()
			}
			if c.QuietAfter {
				q := atomic.LoadInt32(&quiet) == 1
				switch f.Kind {
				case "unsupported", "invalid", "undecodable":
					last := f.At
					if f.Kind == "undecodable" && f.Sub%6 == 4 {
						last++ // an unknown checksum algorithm only bites on the event after the format description
					}
					st, _ := stRef.Load().(*attemptState)
					if st != nil {
						st.mu.Lock()
						if n := st.steps - 1; f.At > n { // the fault point is clamped to the script
							last = last - f.At + n
						}
						st.mu.Unlock()
					}
					q = q || i > last
					if rowsQueryFault(f) {
						// a replica may treat the informational rows-query event as ignorable: then nothing has
						// stopped it, and a master that falls silent would only make it wait (as it should)
						q = atomic.LoadInt32(&quiet) == 1
					}
				case "mapper_err", "mapper_cols":
					ss.mp.mu.Lock()
					q = q || ss.mp.fired
					ss.mp.mu.Unlock()
				}
				if q {
					return false // nothing more is sent; the connection stays open until the replica closes it
				}
			}
			if c.IdleMs > 0 && i == 2 {
				time.Sleep(time.Duration(c.IdleMs) * time.Millisecond)
			}
			return true
		}
	}
	at.onState = func(st *attemptState) { stRef.Store(st) }
	innerHandler := at.handler
	calls := 0
	at.handler = func(tx *gobinlog.Transaction, st *attemptState) error {
		calls++
		n := calls
		if c.LongCallMs > 0 && n == 1 {
			time.Sleep(time.Duration(c.LongCallMs) * time.Millisecond)
		}
		if c.Handler == HandlerSlow {
			for i := 0; i < c.SlowN; i++ {
				runtime.Gosched()
				if i%4 == 3 {
					time.Sleep(50 * time.Microsecond)
				}
			}
		}
		if c.Handler == HandlerGated && n == c.GateCall {
			atomic.StoreInt32(&handlerBlocked, 1)
			want := "holding-event"
			if c.Pacing == PaceLockStep {
				want = "waiting-network"
			}
			deadline := time.Now().Add(1 * time.Second)
			seen := ""
			for time.Now().Before(deadline) {
				seen = readerState(st)
				if seen == want || seen == "gone" {
					// require it twice in a row: the reader is really parked there
					time.Sleep(100 * time.Microsecond)
					if readerState(st) == seen {
						break
					}
				}
				time.Sleep(50 * time.Microsecond)
			}
			obs.ReaderAtStop = seen
			obs.StateReached = seen == want
			if f.Kind == "cancel_gate" {
				doCancel()
				// stay inside the handler a little longer: Stream must not return while its handler call is still running
				hold := 30
				if c.HoldMs > 0 {
					hold = c.HoldMs
				}
				for d := time.Now().Add(time.Duration(hold) * time.Millisecond); time.Now().Before(d) && atomic.LoadInt32(&st.returned) == 0; {
					time.Sleep(200 * time.Microsecond)
				}
			}
			atomic.StoreInt32(&handlerBlocked, 0)
		}
		if f.Kind == "cancel_in" && n == f.At {
			doCancel()
			return nil
		}
		if innerHandler != nil && f.Kind != "cancel_in" {
			err := innerHandler(tx, st)
			if err != nil {
				obs.CauseFired = true
				atomic.StoreInt32(&quiet, 1)
			}
			return err
		}
		return nil
	}
	if f.Kind == "cancel_handshake" {
		go func() {
			// cancel once the Stream goroutine sits in the handshake read
			deadline := time.Now().Add(time.Second)
			for time.Now().Before(deadline) {
				if st, ok := stRef.Load().(*attemptState); ok {
					if g, ok := sched.Find(sched.Probe(), int(st.streamGID.Load())); ok && g.State == "IO wait" {
						break
					}
				}
				time.Sleep(100 * time.Microsecond)
			}
			doCancel()
		}()
	}
	if c.PerturbWho != 0 {
		disarm := armPerturb(c.PerturbWho, c.PerturbMicros, c.PerturbLevel)
		defer disarm()
	}
	at.fallback = stopBound + time.Duration(c.LongCallMs)*time.Millisecond
	at.fallbackCancel = cancel
	at.onStall = func(st *attemptState) {
		state, proven := blockedProof(int(st.streamGID.Load()), st.baseline)
		if proven {
			obs.Stalled = "Stream has not returned and is parked: " + state
		} else {
			obs.Inconclusive = "Stream had not returned after the bound but is not provably blocked (" + state + ")"
		}
	}
	callError := func(st *attemptState) {
		// Error() must return, three times in a row
		for i := 0; i < 3 && obs.ErrorBlocked == ""; i++ {
			done := make(chan error, 1)
			var gid atomic.Int64
			var wg sync.WaitGroup
			wg.Add(1)
			go func() {
				gid.Store(int64(sched.Self()))
				wg.Done()
				done <- ss.s.Error()
			}()
			wg.Wait()
			select {
			case e := <-done:
				obs.ErrorResults = append(obs.ErrorResults, e)
			case <-time.After(stopBound):
				state, proven := blockedProof(int(gid.Load()), st.baseline)
				if proven {
					obs.ErrorBlocked = fmt.Sprintf("Error() call %d does not return: %s", i+1, state)
				} else if obs.Inconclusive == "" {
					obs.Inconclusive = "Error() had not returned after the bound but is not provably blocked (" + state + ")"
				}
			}
		}
	}
	var callsAtReturn int32
	at.afterReturn = func(st *attemptState) {
		callsAtReturn = atomic.LoadInt32(&st.calls)
		obs.CallerCancelled = atomic.LoadInt32(&cancelled) == 1
		if c.LateDeadlineMs > 0 {
			if ctx.Err() != nil {
				obs.CallerCancelled = true // the deadline passed while Stream was running: a caller-side stop
			} else if dl, ok := ctx.Deadline(); ok {
				time.Sleep(time.Until(dl) + time.Millisecond)
			}
		}
		// the first Error() call comes IMMEDIATELY after Stream returned, as a caller would do it
		if !c.ErrLater {
			callError(st)
		}
		// the connection must be closed by the library within the bound (when the master did not close it first)
		// (a session that never sent a command ended inside the driver's connect phase - e.g. a deadline that
		// expired there; what is left behind then is judged by the goroutine check with its connect-phase signature)
		if _, seen := st.dump(); seen || ((f.Kind == "err_query" || f.Kind == "dump_unsendable") && len(plan.Cmds()) > 0) {
			select {
			case <-plan.PeerClosed:
				obs.PeerClosed = true
			case <-time.After(stopBound):
			}
			obs.PeerInitiated = plan.PeerInitiated()
		} else {
			obs.PeerClosed = true
		}
	}
	st := ss.run(at)
	_, obs.DumpSeen = st.dump()
	obs.Panicked = st.panicked
	obs.StreamReturned = !st.fellBack
	obs.StreamErr = st.streamErr
	obs.Delivered = len(st.got)
	obs.TotalTx = len(l.Expected(hist.Pos{File: c.H.FirstFile, Off: c.H.Base}, 0))
	obs.MaxInHandler = atomic.LoadInt32(&st.maxInHand)
	if obs.ReaderAtStop == "" && obs.DumpSeen {
		if c.Pacing == PaceLockStep {
			obs.ReaderAtStop, obs.StateReached = "waiting-network", true // lock-step keeps the reader waiting for the network at every packet
		}
	}
	switch f.Kind {
	case "fin", "rst", "short":
		obs.MasterClosed = true
	}
	switch {
	case f.Kind == "mapper_err" || f.Kind == "mapper_cols":
		ss.mp.mu.Lock()
		obs.CauseFired = ss.mp.fired
		ss.mp.mu.Unlock()
	case isMasterFault(f.Kind):
		// the faulty step (index At, clamped) was written out completely
		at := f.At
		st.mu.Lock()
		if at > st.steps-1 {
			at = st.steps - 1
		}
		st.mu.Unlock()
		obs.CauseFired = obs.DumpSeen && plan.Written() > at
	case f.Kind == "err_query":
		obs.CauseFired = plan.QueryErrSent()
	case f.Kind == "refuse" || f.Kind == "err_handshake" || f.Kind == "dump_unsendable":
		obs.CauseFired = true
	}

	// no library goroutine may remain
	left := sched.WaitNoLib(st.baseline, stopBound, int(st.streamGID.Load()))
	if len(left) > 0 {
		proven := true
		var desc []string
		for _, g := range left {
			state, ok := blockedProof(g.ID, st.baseline)
			proven = proven && ok
			desc = append(desc, fmt.Sprintf("goroutine created by %s: %s", g.Creator, state))
		}
		if proven {
			obs.Leaked = desc
		} else if obs.Inconclusive == "" {
			obs.Inconclusive = "library goroutines remained but are not provably blocked: " + strings.Join(desc, "; ")
		}
	}

	if c.ErrLater {
		callError(st)
	}

	obs.AfterReturn = atomic.LoadInt32(&st.afterRet)
	obs.LateCalls = atomic.LoadInt32(&st.calls) - callsAtReturn
	if st.fellBack {
		obs.LateCalls = 0
	}
	return obs
}
