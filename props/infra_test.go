package props

import (
	"context"
	"crypto/sha256"
	"encoding/binary"
	"encoding/json"
	"fmt"
	"hash/fnv"
	"io"
	"net"
	"os"
	"path/filepath"
	"regexp"
	"runtime"
	"sort"
	"strconv"
	"strings"
	"sync"
	"sync/atomic"
	"syscall"
	"testing"
	"time"

	"github.com/Breeze0806/go/log"
	"github.com/Breeze0806/gobinlog"
	"github.com/Breeze0806/mysql"
	"pgregory.net/rapid"

	"verif/gen"
)

// Environment handed over by bin/vcheck.
var (
	envTier    = getenv("VERIF_TIER", "quick")
	envSeed    = atoi(getenv("VERIF_SEED", "1"))
	envShard   = atoi(getenv("VERIF_SHARD", "0"))
	envNShards = atoi(getenv("VERIF_NSHARDS", "1"))
	envOut     = getenv("VERIF_OUT", "")
	envReplay  = getenv("VERIF_REPLAY_DIR", "")
	envScale   = atof(getenv("VERIF_SCALE", "1"))
)

func getenv(k, d string) string {
	if v := os.Getenv(k); v != "" {
		return v
	}
	return d
}
func atoi(s string) int { v, _ := strconv.Atoi(s); return v }
func atof(s string) float64 {
	v, err := strconv.ParseFloat(s, 64)
	if err != nil || v <= 0 {
		return 1
	}
	return v
}

func thorough() bool { return envTier == "thorough" }

func limits() gen.Limits {
	if thorough() {
		return gen.Thorough
	}
	return gen.Quick
}

// pick returns q in the quick tier and th in the thorough tier, scaled.
func pick(q, th int) int {
	n := q
	if thorough() {
		n = th
	}
	n = int(float64(n) * envScale)
	if n < 1 {
		n = 1
	}
	return n
}

// dialHook, when set, runs after the custom dialer has connected and before it
// hands the connection to the driver (a cancellation exactly between the two).
var dialHook atomic.Value // func()

// dialWrap, when set, wraps the connection the custom dialer hands to the driver (client-side transport
// faults that a master cannot provoke: a write that fails).
var dialWrap atomic.Value // func(net.Conn) net.Conn

// failWriteConn fails the Write that carries the dump command (a command packet - sequence number 0 - whose
// command byte is COM_BINLOG_DUMP) with ECONNRESET without sending anything; whatever else the session writes
// before it (the handshake response, the checksum statement, any further session settings) goes through.
type failWriteConn struct {
	net.Conn
}

func (c *failWriteConn) Write(b []byte) (int, error) {
	if len(b) >= 5 && b[3] == 0 && b[4] == 0x12 {
		return 0, &net.OpError{Op: "write", Net: "tcp", Err: syscall.ECONNRESET}
	}
	return c.Conn.Write(b)
}

// failDumpWrite arms dialWrap so that the next connection cannot send its dump command; it returns the disarm.
func failDumpWrite() func() {
	dialWrap.Store(func(c net.Conn) net.Conn { return &failWriteConn{Conn: c} })
	return func() { dialWrap.Store(func(c net.Conn) net.Conn { return c }) }
}

// perturbLogger is installed through the exported SetLogger.  It discards every
// message; when a scenario arms it, it additionally delays the calling goroutine
// at the library's log calls (a legitimate schedule perturbation: any real logger
// takes time), which widens otherwise instruction-wide race windows.
type perturbLogger struct{}

var (
	perturbWho    int32 // 0 off, 1 reader goroutine, 2 Stream goroutine, 3 both
	perturbMicros int32
	perturbLevel  int32 // 1 Errorf/Print only, 2 + Infof, 3 + Debugf
)

// logHook, when set, is called at every log call of the library with whether the caller is
// the reader (or watcher) goroutine; scenarios use it to act at a precise point of the parser.
var logHook atomic.Value // func(reader bool)

func perturb(level int32) {
	if h, ok := logHook.Load().(func(bool)); ok && h != nil {
		var buf [2048]byte
		st := string(buf[:runtime.Stack(buf[:], false)])
		h(strings.Contains(st, "startDumpFromBinlogPosition.func1") || strings.Contains(st, "startWatcher"))
	}
	who := atomic.LoadInt32(&perturbWho)
	if who == 0 || level > atomic.LoadInt32(&perturbLevel) {
		return
	}
	var buf [2048]byte
	st := string(buf[:runtime.Stack(buf[:], false)])
	reader := strings.Contains(st, "startDumpFromBinlogPosition.func1") || strings.Contains(st, "startWatcher")
	if (reader && who&1 != 0) || (!reader && who&2 != 0) {
		time.Sleep(time.Duration(atomic.LoadInt32(&perturbMicros)) * time.Microsecond)
	}
}

// logFormats: the logger formats every message before discarding it (what a real logger at debug level does).
var logFormats int32

func formatLog(format string, args []interface{}) {
	if atomic.LoadInt32(&logFormats) == 1 {
		if format == "" {
			_ = fmt.Sprint(args...)
		} else {
			_ = fmt.Sprintf(format, args...)
		}
	}
}

func (perturbLogger) Errorf(f string, a ...interface{}) { formatLog(f, a); perturb(1) }
func (perturbLogger) Print(a ...interface{})            { formatLog("", a); perturb(1) }
func (perturbLogger) Printf(f string, a ...interface{}) { formatLog(f, a); perturb(1) }
func (perturbLogger) Infof(f string, a ...interface{})  { formatLog(f, a); perturb(2) }
func (perturbLogger) Debugf(f string, a ...interface{}) { formatLog(f, a); perturb(3) }

func armPerturb(who, micros, level int) func() {
	atomic.StoreInt32(&perturbMicros, int32(micros))
	atomic.StoreInt32(&perturbLevel, int32(level))
	atomic.StoreInt32(&perturbWho, int32(who))
	return func() { atomic.StoreInt32(&perturbWho, 0) }
}

func TestMain(m *testing.M) {
	_ = io.Discard
	_ = log.ErrorLevel
	gobinlog.SetLogger(perturbLogger{})
	mysql.RegisterDialContext("verifdial", func(ctx context.Context, addr string) (net.Conn, error) {
		var d net.Dialer
		c, err := d.DialContext(ctx, "tcp", addr)
		if f, ok := dialHook.Load().(func()); ok && f != nil && err == nil {
			f()
		}
		if w, ok := dialWrap.Load().(func(net.Conn) net.Conn); ok && w != nil && err == nil {
			c = w(c)
		}
		return c, err
	})
	os.Exit(m.Run())
}

// Recorder accumulates the evidence counters of one check in one shard.
type Recorder struct {
	mu         sync.Mutex
	ID         string
	Evals      int64
	Enumerated int64 // cases of exhaustive sweeps (distinct by construction, all non-trivial unless stated)
	hashes     map[uint64]struct{}
	Classes    map[string]int64
	Excluded   map[string]int64
	Samples    []interface{}
	Exhaustive []string // names of sub-spaces enumerated completely by this shard set
	Notes      []string
	Findings   []Finding
}

// Finding is one property violation observed by a check.
type Finding struct {
	Sig    string `json:"sig"`
	Msg    string `json:"msg"`
	Replay string `json:"replay,omitempty"`
}

var recorders = map[string]*Recorder{}
var recMu sync.Mutex

func recorder(id string) *Recorder {
	recMu.Lock()
	defer recMu.Unlock()
	if r, ok := recorders[id]; ok {
		return r
	}
	r := &Recorder{ID: id, hashes: map[uint64]struct{}{}, Classes: map[string]int64{}, Excluded: map[string]int64{}}
	if strconv.IntSize == 32 {
		r.Classes["shards-in-a-32-bit-build (GOARCH=386)"] = 1
	}
	recorders[id] = r
	return r
}

func hashOf(v interface{}) uint64 {
	h := fnv.New64a()
	switch x := v.(type) {
	case []byte:
		h.Write(x)
	case string:
		h.Write([]byte(x))
	default:
		b, _ := json.Marshal(v)
		h.Write(b)
	}
	return h.Sum64()
}

// Case records one generated case.
func (r *Recorder) Case(nontrivial bool, key interface{}, classes ...string) {
	r.mu.Lock()
	defer r.mu.Unlock()
	r.Evals++
	if nontrivial {
		r.hashes[hashOf(key)] = struct{}{}
	}
	for _, c := range classes {
		r.Classes[c]++
	}
}

// Class bumps class counters without counting a case.
func (r *Recorder) Class(classes ...string) {
	r.mu.Lock()
	defer r.mu.Unlock()
	for _, c := range classes {
		r.Classes[c]++
	}
}

// Enumerate records n cases of an exhaustive sweep (each distinct by construction).
func (r *Recorder) Enumerate(n int64, class string) {
	r.mu.Lock()
	defer r.mu.Unlock()
	r.Evals += n
	r.Enumerated += n
	r.Classes[class] += n
}

// Exclude counts a case dropped by construction (known finding).
func (r *Recorder) Exclude(what string) {
	r.mu.Lock()
	defer r.mu.Unlock()
	r.Excluded[what]++
}

// Sample keeps up to max sample cases.
func (r *Recorder) Sample(v interface{}) {
	r.mu.Lock()
	defer r.mu.Unlock()
	if len(r.Samples) < 3 {
		b, err := json.Marshal(v)
		if err == nil && len(b) > 6000 {
			v = string(b[:6000]) + "...(truncated)"
		}
		r.Samples = append(r.Samples, v)
	}
}

// Note adds free text to the evidence.
func (r *Recorder) Note(format string, a ...interface{}) {
	r.mu.Lock()
	defer r.mu.Unlock()
	r.Notes = append(r.Notes, fmt.Sprintf(format, a...))
}

// MarkExhaustive states that a finite sub-space was enumerated completely.
func (r *Recorder) MarkExhaustive(what string) {
	r.mu.Lock()
	defer r.mu.Unlock()
	r.Exhaustive = append(r.Exhaustive, what)
}

// replayFile is the on-disk form of a failing case.
type replayFile struct {
	Property string          `json:"property"`
	Check    string          `json:"check"`
	Error    string          `json:"error"`
	Case     json.RawMessage `json:"case"`
	// Arch is "386" when the case failed in a 32-bit build of library and harness (int is 32 bits wide);
	// bin/vcheck replay then builds the same way
	Arch string `json:"arch,omitempty"`
}

// buildArch names the build when it is not the default 64-bit one.
func buildArch() string {
	if strconv.IntSize == 32 {
		return "386"
	}
	return ""
}

// Violation saves the failing case as a replay file and records the finding.
// Under rapid the property body runs again while shrinking; each failing run
// overwrites the shard's file for this check, so the last one written is the
// minimal case.
func (r *Recorder) Violation(check string, c interface{}, sig string, err error) string {
	r.mu.Lock()
	defer r.mu.Unlock()
	path := ""
	if envReplay != "" {
		raw, _ := json.Marshal(c)
		b, _ := json.MarshalIndent(replayFile{Property: r.ID, Check: check, Error: err.Error(), Case: raw, Arch: buildArch()}, "", " ")
		path = filepath.Join(envReplay, fmt.Sprintf("%s-%s-shard%d.json", r.ID, check, envShard))
		os.MkdirAll(envReplay, 0o755)
		os.WriteFile(path, b, 0o644)
	}
	if sig == "" {
		s := sha256.Sum256([]byte(check + err.Error()))
		sig = fmt.Sprintf("%s:%s:%x", r.ID, check, s[:4])
	}
	// keep one finding per (check): the latest (minimal) one
	for i := range r.Findings {
		if r.Findings[i].Replay == path && path != "" {
			r.Findings[i] = Finding{Sig: sig, Msg: err.Error(), Replay: path}
			return path
		}
	}
	r.Findings = append(r.Findings, Finding{Sig: sig, Msg: err.Error(), Replay: path})
	return path
}

// Flush writes the shard's counters for bin/vcheck to merge.
func (r *Recorder) Flush(t *testing.T) {
	if capturing {
		return
	}
	r.mu.Lock()
	defer r.mu.Unlock()
	if envOut == "" {
		t.Logf("%s: evals=%d distinct_nontrivial=%d enumerated=%d classes=%v excluded=%v findings=%d", r.ID, r.Evals, len(r.hashes), r.Enumerated, r.Classes, r.Excluded, len(r.Findings))
		return
	}
	os.MkdirAll(envOut, 0o755)
	hs := make([]uint64, 0, len(r.hashes))
	for h := range r.hashes {
		hs = append(hs, h)
	}
	sort.Slice(hs, func(i, j int) bool { return hs[i] < hs[j] })
	hb := make([]byte, 8*len(hs))
	for i, h := range hs {
		binary.LittleEndian.PutUint64(hb[8*i:], h)
	}
	base := filepath.Join(envOut, fmt.Sprintf("%s-%d", r.ID, envShard))
	os.WriteFile(base+".hashes", hb, 0o644)
	out := map[string]interface{}{
		"id": r.ID, "shard": envShard, "evals": r.Evals, "enumerated": r.Enumerated, "classes": r.Classes,
		"excluded": r.Excluded, "samples": r.Samples, "exhaustive": r.Exhaustive, "notes": r.Notes, "findings": r.Findings,
		"failed": t.Failed(),
	}
	b, _ := json.MarshalIndent(out, "", " ")
	os.WriteFile(base+".json", b, 0o644)
}

// shardRange splits [0,n) into envNShards contiguous slices.
func shardRange(n uint64) (lo, hi uint64) {
	if capturing {
		return 0, 0
	}
	per := n / uint64(envNShards)
	lo = per * uint64(envShard)
	hi = lo + per
	if envShard == envNShards-1 {
		hi = n
	}
	return
}

// ---- replay registry -------------------------------------------------------

var replayers = map[string]func(raw json.RawMessage) error{}

func registerReplay(check string, f func(raw json.RawMessage) error) { replayers[check] = f }

// TestReplay re-runs one saved case directly, bypassing rapid.
func TestReplay(t *testing.T) {
	path := os.Getenv("VERIF_REPLAY")
	if path == "" {
		t.Skip("VERIF_REPLAY not set")
	}
	b, err := os.ReadFile(path)
	if err != nil {
		t.Fatalf("read replay: %v", err)
	}
	var rf replayFile
	if err := json.Unmarshal(b, &rf); err != nil {
		t.Fatalf("parse replay: %v", err)
	}
	f, ok := replayers[rf.Check]
	if !ok {
		t.Fatalf("no replayer for check %q", rf.Check)
	}
	if err := f(rf.Case); err != nil {
		fmt.Printf("REPLAY-VIOLATION property=%s check=%s: %v\n", rf.Property, rf.Check, err)
		t.Fatalf("violation reproduced: %v", err)
	}
	fmt.Printf("REPLAY-OK property=%s check=%s\n", rf.Property, rf.Check)
}

// guard runs f and converts a panic into an error (a decoder must not panic on
// well-formed input).
func guard(f func() error) (err error) {
	defer func() {
		if r := recover(); r != nil {
			err = fmt.Errorf("panic: %v", r)
		}
	}()
	return f()
}

// rapidCheck runs a rapid property and keeps going semantics uniform.
func rapidCheck(t *testing.T, prop func(*rapid.T)) {
	t.Helper()
	if capturing {
		capturedProp = prop
		return
	}
	if t.Failed() {
		return // a deterministic part already reported a violation
	}
	rapid.Check(t, prop)
}

// capturing: a check function is being run only to obtain its generated property (see fuzzProperty);
// enumerated / exhaustive parts are skipped and nothing is flushed.
var (
	capturing    bool
	capturedProp func(*rapid.T)
)

// fuzzProperty drives the generated property of a check with go's native coverage-guided fuzzer
// (rapid.MakeFuzz: the fuzzer's bytes become the generators' random stream), thorough tier only.
func fuzzProperty(f *testing.F, check func(*testing.T)) {
	capturing, capturedProp = true, nil
	shard := envShard
	envShard = -1 // no enumerated part belongs to this process
	defer func() { envShard = shard }()
	done := make(chan struct{})
	go func() {
		defer close(done)
		check(&testing.T{})
	}()
	<-done
	capturing = false
	if capturedProp == nil {
		f.Fatal("harness: the check did not reach its generated property")
	}
	f.Fuzz(rapid.MakeFuzz(capturedProp))
}

// knownSig reports whether a finding signature is listed as a known finding in
// /verif/known_findings.json (read-only; never written at run time).
func knownSig(sig string) bool {
	knownOnce.Do(func() {
		b, err := os.ReadFile(filepath.Join("..", "known_findings.json"))
		if err != nil {
			return
		}
		var kf struct {
			Findings []struct{ Status, Property, Signature string } `json:"findings"`
		}
		if json.Unmarshal(b, &kf) != nil {
			return
		}
		for _, f := range kf.Findings {
			if f.Status == "known" && f.Signature != "" {
				if re, err := regexp.Compile(f.Signature); err == nil {
					knownRes = append(knownRes, re)
				}
			}
		}
	})
	for _, re := range knownRes {
		if re.MatchString(sig) {
			return true
		}
	}
	return false
}

var knownOnce sync.Once
var knownRes []*regexp.Regexp
