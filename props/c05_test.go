package props

import (
	"encoding/json"
	"fmt"
	"os"
	"strings"
	"testing"

	"pgregory.net/rapid"

	"verif/gen"
	"verif/hist"
	"verif/refenc"
)

// judgeC05 applies C05's oracle to the observations of one scenario.
func judgeC05(c *StopCase, o *StopObs) (sig string, err error) {
	if o.Panicked != "" {
		return "C05:panic", fmt.Errorf("Stream did not return but panicked: %v", o.StreamErr)
	}
	if o.Stalled != "" {
		return "C05:stream-stalls", fmt.Errorf("%s", o.Stalled)
	}
	if o.MaxInHandler > 1 {
		return "C05:handler-concurrent", fmt.Errorf("%d handler calls were running at once", o.MaxInHandler)
	}
	if o.AfterReturn > 0 || o.LateCalls > 0 {
		return "C05:handler-after-return", fmt.Errorf("the handler was running or called after Stream had returned (%d/%d)", o.AfterReturn, o.LateCalls)
	}
	if o.StreamReturned && !o.PeerClosed {
		return "C05:conn-left-open", fmt.Errorf("Stream returned but the connection to the master was not closed within the bound")
	}
	if len(o.Leaked) > 0 {
		phase := ""
		if !o.DumpSeen {
			phase = ":connect-phase"
		}
		return "C05:goroutine-left:" + leakSig(o.Leaked) + phase, fmt.Errorf("library goroutines remain after Stream returned: %s", strings.Join(o.Leaked, "; "))
	}
	if o.ErrorBlocked != "" {
		return "C05:error-blocks:" + leakSig([]string{o.ErrorBlocked}), fmt.Errorf("%s", o.ErrorBlocked)
	}
	return "", nil
}

func leakSig(desc []string) string {
	s := strings.Join(desc, ";")
	switch {
	case strings.Contains(s, "nil chan"):
		return "nil-chan"
	case strings.Contains(s, "startDumpFromBinlogPosition"):
		return "reader"
	case strings.Contains(s, "startWatcher"):
		return "watcher"
	case strings.Contains(s, "chan receive"):
		return "chan-receive"
	}
	return "other"
}

func checkC05(c *StopCase) (*StopObs, string, error) {
	o := runStop(c)
	sig, err := judgeC05(c, o)
	return o, sig, err
}

func init() {
	registerReplay("c05", func(raw json.RawMessage) error {
		var c StopCase
		if err := json.Unmarshal(raw, &c); err != nil {
			return err
		}
		o, _, err := checkC05(&c)
		if err == nil && o.Inconclusive != "" {
			fmt.Println("INCONCLUSIVE:", o.Inconclusive)
		}
		return err
	})
}

// stopKinds is the stop-cause alphabet of C05 / C06.
var stopKinds = []string{"none", "cancel_out", "cancel_gate", "cancel_in", "cancel_log", "handler_err_cancel", "deadline", "eof", "err", "fin", "rst", "short", "outofseq",
	"handler_err", "handler_panic", "mapper_err", "mapper_cols", "unsupported", "invalid", "undecodable", "refuse", "err_handshake", "err_query", "cancel_handshake", "cancel_query", "dump_unsendable", "cancel_dial"}

func stopHistOpt() gen.HistOpt {
	o := gen.DefaultHistOpt(limits(), false)
	o.MaxUnits, o.MaxItems, o.MaxRowsEv, o.MaxRows, o.MaxCols, o.MaxTables = 4, 1, 1, 2, 2, 2
	o.BigBase = false
	o.Rotations = 1
	o.Ignorables = true
	o.Scale = false
	o.Kinds = []hist.UnitKind{hist.UTxXID, hist.UTxCommit, hist.UDDL, hist.UAutoRows}
	o.Col = gen.ColumnOpt{Only: []byte{refenc.TLong, refenc.TVarchar}, NoHeavy: true}
	return o
}

func drawStop(rt *rapid.T, o gen.HistOpt, kinds []string) *StopCase {
	c := &StopCase{H: gen.History(rt, o)}
	for len(c.H.Units) == 0 {
		c.H = gen.History(rt, o)
	}
	if rapid.IntRange(0, 11).Draw(rt, "long_history") == 0 {
		// a long backlog: hundreds of packets can queue up behind a slow or gated handler
		seq := make([]int, rapid.SampledFrom([]int{40, 80, 120, 400}).Draw(rt, "long_len"))
		for i := range seq {
			seq[i] = rapid.SampledFrom([]int{0, 1, 3, 4, 5, 6}).Draw(rt, "long_sym")
		}
		c.H = seqHistory(seq, rapid.IntRange(0, 15).Draw(rt, "long_variant"))
	}
	deep := rapid.IntRange(0, 19).Draw(rt, "deep_backlog") == 0
	if deep {
		// a backlog of thousands of packets behind a handler that is held in its first call, and a stop
		// that does not drain it: whatever read-ahead the library has is full at that moment
		seq := make([]int, rapid.SampledFrom([]int{400, 700, 1500}).Draw(rt, "deep_len"))
		for i := range seq {
			seq[i] = rapid.SampledFrom([]int{0, 1, 3, 4}).Draw(rt, "deep_sym")
		}
		c.H = seqHistory(seq, rapid.IntRange(0, 15).Draw(rt, "deep_variant"))
		var dk []string
		for _, k := range []string{"handler_err", "cancel_gate", "cancel_in", "handler_err_cancel"} {
			for _, have := range kinds {
				if have == k {
					dk = append(dk, k)
				}
			}
		}
		if len(dk) > 0 {
			kinds = dk
		}
	}
	l, err := c.H.Lay()
	if err != nil {
		rt.Skip(err.Error())
	}
	payloads, _, _ := l.Served(c.H.FirstFile, c.H.Base)
	nsteps := len(payloads) + 1
	ntx := len(l.Expected(hist.Pos{File: c.H.FirstFile, Off: c.H.Base}, 0))
	k := rapid.SampledFrom(kinds).Draw(rt, "stop_kind")
	switch k {
	case "none", "cancel_gate", "refuse", "err_handshake", "err_query", "cancel_handshake", "cancel_dial", "dump_unsendable":
		c.Fault = Fault{Kind: k}
	case "deadline":
		c.Fault = Fault{Kind: k, At: rapid.IntRange(0, 20).Draw(rt, "deadline_ticks")}
	case "cancel_query":
		c.Fault = Fault{Kind: k, At: rapid.IntRange(0, 30).Draw(rt, "answer_delay_ticks")}
	default:
		c.Fault = drawFault(rt, []string{k}, nsteps, ntx)
		if isMasterFault(k) && rapid.IntRange(0, 2).Draw(rt, "after_first_commit") != 0 {
			// steer the stop point behind the first commit event so that a delivery precedes it
			_, evIdx, _ := l.Served(c.H.FirstFile, c.H.Base)
			for i, ev := range evIdx {
				if ev >= 0 && l.Events[ev].Commit && i+1 <= nsteps-1 {
					c.Fault.At = rapid.IntRange(i+1, nsteps-1).Draw(rt, "fault_at_late")
					break
				}
			}
		}
	}
	c.Pacing = rapid.IntRange(0, 1).Draw(rt, "pacing")
	if nsteps > 300 {
		c.Pacing = PaceFarAhead // lock-step over a thousand packets would take seconds
	}
	c.Handler = rapid.IntRange(0, 2).Draw(rt, "handler_mode")
	if k == "cancel_gate" {
		c.Handler = HandlerGated
		c.HoldMs = rapid.SampledFrom([]int{30, 30, 150, 400}).Draw(rt, "hold_ms")
	}
	if c.Handler == HandlerGated {
		c.GateCall = rapid.IntRange(1, max(1, ntx)).Draw(rt, "gate_call")
		if k == "handler_err" || k == "handler_err_cancel" {
			c.GateCall = c.Fault.At
		}
	}
	if deep {
		c.Pacing, c.Handler, c.GateCall = PaceFarAhead, HandlerGated, 1
		if c.Fault.Kind != "cancel_gate" {
			c.Fault.At = 1
		}
	}
	if c.Handler == HandlerSlow {
		c.SlowN = rapid.IntRange(1, 12).Draw(rt, "slow_n")
	}
	c.PrevOK = rapid.IntRange(0, 4).Draw(rt, "prev_ok") == 0
	if c.PrevOK {
		switch rapid.IntRange(0, 2).Draw(rt, "prev_end") {
		case 1:
			c.PrevCancel = true
		case 2:
			c.PrevFail = true
		}
	}
	switch k {
	case "cancel_out", "cancel_in", "cancel_gate", "cancel_log", "cancel_busy", "handler_err", "handler_panic", "handler_err_cancel", "mapper_err", "mapper_cols", "unsupported", "invalid", "undecodable":
		c.QuietAfter = rapid.Bool().Draw(rt, "quiet_after")
	}
	c.CustomCtx = rapid.IntRange(0, 3).Draw(rt, "own_context_type") == 0
	if rapid.IntRange(0, 3).Draw(rt, "chop") == 0 {
		c.Chop = rapid.Uint32Range(1, 1<<32-1).Draw(rt, "chop_seed")
	}
	if rapid.IntRange(0, 4).Draw(rt, "late_deadline") == 0 {
		c.LateDeadlineMs = rapid.IntRange(15, 40).Draw(rt, "late_deadline_ms")
	}
	if rapid.IntRange(0, 2).Draw(rt, "perturb") == 0 {
		c.PerturbWho = rapid.IntRange(1, 3).Draw(rt, "perturb_who")
		c.PerturbLevel = rapid.IntRange(1, 3).Draw(rt, "perturb_level")
		c.PerturbMicros = rapid.SampledFrom([]int{200, 1000, 3000}).Draw(rt, "perturb_us")
		if c.PerturbLevel == 3 {
			c.PerturbMicros = 100
		}
	}
	c.ErrLater = rapid.IntRange(0, 2).Draw(rt, "error_asked_later") == 0
	return c
}

func stopClasses(c *StopCase, o *StopObs) []string {
	cls := []string{"cause/" + c.Fault.Kind, fmt.Sprintf("pacing=%d", c.Pacing), fmt.Sprintf("handler=%d", c.Handler)}
	if o.ReaderAtStop != "" {
		cls = append(cls, "reader-at-stop/"+o.ReaderAtStop)
	}
	if c.PrevOK && !c.PrevCancel && !c.PrevFail {
		cls = append(cls, "after-successful-attempt")
	}
	if c.PrevOK && c.PrevCancel {
		cls = append(cls, "after-cancelled-attempt")
	}
	if c.PrevOK && c.PrevFail {
		cls = append(cls, "after-attempt-ended-by-handler-failure")
	}
	if c.PerturbWho != 0 {
		cls = append(cls, fmt.Sprintf("perturb/who=%d/level=%d", c.PerturbWho, c.PerturbLevel))
	}
	if c.QuietAfter {
		cls = append(cls, "master-silent-after-the-cause")
	}
	if c.Chop != 0 {
		cls = append(cls, "bytes-arrive-in-pieces")
	}
	if c.CustomCtx {
		cls = append(cls, "context-of-the-callers-own-type")
	}
	if len(c.H.Units) >= 400 && c.Handler == HandlerGated && c.GateCall == 1 {
		cls = append(cls, "deep-backlog-behind-gated-first-call")
	}
	if c.LateDeadlineMs > 0 {
		if o.CallerCancelled {
			cls = append(cls, "deadline-expired-during-the-stream")
		} else {
			cls = append(cls, "deadline-expired-between-return-and-Error()")
		}
	}
	cls = append(cls, fmt.Sprintf("cause/%s/reader=%s/handler=%d", c.Fault.Kind, o.ReaderAtStop, c.Handler))
	return cls
}

func TestC05(t *testing.T) {
	rec := recorder("C05")
	defer rec.Flush(t)
	if os.Getenv("VERIF_RACE") == "1" {
		rec.Class("shards-under-race-detector")
	}
	o := stopHistOpt()
	inconclusive := 0
	// dedicated deterministic scenarios for the listed findings (shard 0): they are excluded from the
	// random search below by construction (cause "cancel_dial" is not in its alphabet)
	if envShard == 0 {
		c := &StopCase{H: seqHistory([]int{0, 1}, 1), Fault: Fault{Kind: "cancel_dial"}}
		obs, sig, err := checkC05(c)
		rec.Case(true, c, stopClasses(c, obs)...)
		if err != nil {
			rec.Violation("c05", c, sig, err)
			if !knownSig(sig) {
				t.Errorf("C05 violation: %v", err)
			}
		}
	}
	// one long-lived, mostly idle attempt (2.6 s) in one normal and one race-detector shard: periodic
	// background work of the library (timers, tickers, watchdogs) must be race free and must go away
	if envShard == 1 || envShard == 12 {
		c := &StopCase{H: seqHistory([]int{0, 1, 4}, 3), Fault: Fault{Kind: "none"}, IdleMs: 2600}
		obs, sig, err := checkC05(c)
		rec.Case(true, c, append(stopClasses(c, obs), "long-lived-idle-attempt")...)
		if err != nil {
			rec.Violation("c05", c, sig, err)
			if !knownSig(sig) {
				t.Errorf("C05 violation: %v", err)
			}
		}
	}
	// thorough tier, one shard: a handler call of 10.5 s with the master's packets waiting behind it (the
	// reader holds one for all that time), then the stream runs on to the master's EOF; whatever the library
	// does about a consumer that slow (warn, measure), afterwards everything must end as usual
	if thorough() && envShard == 2%envNShards {
		c := &StopCase{H: seqHistory([]int{0, 1, 0, 4, 0}, 3), Fault: Fault{Kind: "none"}, LongCallMs: 10500}
		journal("C05", "c05", c)
		obs, sig, err := checkC05(c)
		rec.Case(true, c, append(stopClasses(c, obs), "handler-call-of-10.5s-with-packets-waiting")...)
		if err != nil {
			rec.Violation("c05", c, sig, err)
			if !knownSig(sig) {
				t.Errorf("C05 violation: %v", err)
			}
		}
	}
	var kinds []string
	for _, k := range stopKinds {
		if k != "cancel_dial" {
			kinds = append(kinds, k)
		}
	}
	// thorough tier: ENUMERATE (cause x stop point x pacing x handler mode) on three fixed history shapes
	if thorough() {
		n := enumStops(func(c *StopCase) bool {
			journal("C05", "c05", c)
			obs, sig, err := checkC05(c)
			nt := obs.StateReached || !obs.DumpSeen
			rec.Case(nt, c, append(stopClasses(c, obs), "enumerated")...)
			if obs.Inconclusive != "" {
				inconclusive++
				rec.Class("inconclusive")
			}
			if err != nil {
				rec.Violation("c05", c, sig, err)
				if !knownSig(sig) {
					t.Errorf("C05 violation (enumerated scenario): %v", err)
					return false
				}
			}
			return true
		}, kinds)
		rec.Note("enumerated %d scenarios in this shard", n)
		rec.MarkExhaustive("cause x every stop point x pacing x handler mode (x gated call) on three fixed history shapes (thorough tier)")
	}
	rapidCheck(t, func(rt *rapid.T) {
		parOdds := 14
		if os.Getenv("VERIF_RACE") == "1" {
			parOdds = 2 // the race-detector shards are where shared state between streamers becomes visible
		}
		if rapid.IntRange(0, parOdds).Draw(rt, "part_parallel") == 0 {
			// several streamers at once in one process: under the race-detector shards any unsynchronised
			// state shared between streamers shows up as a race report; everywhere it must not disturb grouping
			pc := &ParallelCase{}
			for i, n := 0, rapid.IntRange(2, 3).Draw(rt, "nstreams"); i < n; i++ {
				seq := make([]int, rapid.IntRange(10, 60).Draw(rt, "par_len"))
				for j := range seq {
					seq[j] = rapid.SampledFrom([]int{0, 1, 2, 3, 4, 5, 6, 7, 13}).Draw(rt, "par_sym")
				}
				pc.Seqs = append(pc.Seqs, seq)
				pc.Variants = append(pc.Variants, rapid.IntRange(0, 15).Draw(rt, "par_variant"))
			}
			rec.Case(true, pc, "parallel-streamers")
			if err := checkParallel(pc); err != nil {
				rec.Violation("c02par", pc, "", err)
				rt.Fatalf("C05 violation (streamers running in parallel): %v", err)
			}
			// and with histories over every column type (decoders run concurrently)
			po := gen.DefaultHistOpt(limits(), false)
			po.MaxUnits, po.MaxTables, po.BigBase, po.Scale = 12, 3, false, false
			po.MaxRows, po.MaxRowsEv = 6, 3
			po.Col = gen.ColumnOpt{NoHeavy: true}
			pe := drawParallelE2E(rt, po)
			if err := checkParallelE2E(pe); err != nil {
				rec.Violation("c01par", pe, "", err)
				rt.Fatalf("C05 violation (streamers running in parallel): %v", err)
			}
			return
		}
		c := drawStop(rt, o, kinds)
		journal("C05", "c05", c)
		obs, sig, err := checkC05(c)
		nt := obs.StateReached || !obs.DumpSeen // connect-phase scenarios have no reader yet
		rec.Case(nt, c, stopClasses(c, obs)...)
		if nt {
			rec.Sample(c)
		}
		if obs.Inconclusive != "" {
			inconclusive++
			rec.Class("inconclusive")
			rec.Note("inconclusive scenario: %s", obs.Inconclusive)
		}
		if err != nil {
			rec.Violation("c05", c, sig, err)
			if knownSig(sig) {
				// a listed finding: recorded (the driver prints KNOWN-FINDING), the search goes on behind it
				rec.Exclude("known finding reproduced in the random search: " + sig)
				return
			}
			rt.Fatalf("C05 violation: %v", err)
		}
	})
	if inconclusive > 0 {
		fmt.Printf("INCONCLUSIVE: %d scenarios could not be judged (machine starved?)\n", inconclusive)
	}
}

// stopShapes are the fixed histories of the enumerated part.
func stopShapes() []*hist.History {
	return []*hist.History{seqHistory([]int{0}, 1), seqHistory([]int{1, 0}, 2), seqHistory([]int{5, 3, 4}, 5)}
}

// enumStops enumerates (shape x cause x stop point x pacing x handler mode x gated call),
// sharded by index; f returns false to stop.
func enumStops(f func(*StopCase) bool, kinds []string) int {
	idx, n := 0, 0
	for _, h := range stopShapes() {
		l, err := h.Lay()
		if err != nil {
			continue
		}
		payloads, _, _ := l.Served(h.FirstFile, h.Base)
		nsteps := len(payloads) + 1
		ntx := len(l.Expected(hist.Pos{File: h.FirstFile, Off: h.Base}, 0))
		for _, k := range kinds {
			var points []int
			switch {
			case isMasterFault(k):
				lo := 0
				if k == "invalid" || k == "unsupported" || k == "undecodable" {
					lo = 2
				}
				for i := lo; i < nsteps; i++ {
					points = append(points, i)
				}
			case k == "cancel_out":
				for i := 0; i <= nsteps; i++ {
					points = append(points, i)
				}
			case k == "cancel_in" || k == "handler_err" || k == "handler_err_cancel" || k == "handler_panic":
				for i := 1; i <= ntx; i++ {
					points = append(points, i)
				}
			case k == "cancel_log":
				for i := 1; i <= 3*nsteps+4; i++ {
					points = append(points, i)
				}
			case k == "mapper_err" || k == "mapper_cols":
				points = []int{1}
			case k == "deadline":
				points = []int{0, 1, 2, 4, 8}
			case k == "cancel_query":
				points = []int{0, 1, 5, 20}
			default:
				points = []int{0}
			}
			for _, at := range points {
				for pacing := 0; pacing <= 1; pacing++ {
					for mode := 0; mode <= 2; mode++ {
						gates := []int{0}
						if mode == HandlerGated {
							gates = nil
							for g := 1; g <= ntx; g++ {
								gates = append(gates, g)
							}
						}
						if k == "cancel_gate" && mode != HandlerGated {
							continue
						}
						for _, g := range gates {
							idx++
							if idx%envNShards != envShard {
								continue
							}
							c := &StopCase{H: h, Fault: Fault{Kind: k, At: at, Sub: idx, ErrCode: 1236, Msg: "enumerated master error"}, Pacing: pacing, Handler: mode, GateCall: g, SlowN: 3, ErrLater: (idx/envNShards)%3 == 2}
							if k == "mapper_cols" {
								c.Fault.Sub = -1
							}
							if k == "handler_err" && mode == HandlerGated {
								c.GateCall = at
							}
							n++
							if !f(c) {
								return n
							}
						}
					}
				}
			}
		}
	}
	return n
}
