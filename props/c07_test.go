package props

import (
	"context"
	"encoding/json"
	"fmt"
	"strings"
	"testing"
	"time"

	"github.com/Breeze0806/gobinlog"
	"pgregory.net/rapid"

	"verif/fakemaster"
	"verif/gen"
	"verif/hist"
	"verif/refenc"
)

// HandshakeCase: a small history placed at arbitrary coordinates, a server id,
// and a sequence of attempts on one streamer; attempt i lets Cuts[i] further
// transactions through and then closes the connection (the last attempt runs to
// the master's EOF).
type HandshakeCase struct {
	H        *hist.History
	ServerID uint32
	StartAt4 bool
	Cuts     []int
	// Deadlines: bit i set = attempt i runs under a context with a (far) deadline
	Deadlines int `json:",omitempty"`
	// Rewind[i] (attempts 1..): -1 nothing; k >= 0: before attempt i the caller puts the streamer back with
	// SetBinlogPosition to the end label of its k-th accepted transaction (k = 0: the start position),
	// clamped to what has been accepted; that attempt must ask for exactly that position
	Rewind []int `json:",omitempty"`
	// CutExtra[i]: attempt i's connection is closed this many packets after the commit event of Cuts[i]
	// (0: right behind it), i.e. possibly inside the next transaction
	CutExtra []int `json:",omitempty"`
	// EmptyName: the caller sets the start position with an empty file name (= the master's first file);
	// until a rotation tells the replica a name, positions in that file carry the empty name
	EmptyName bool `json:",omitempty"`
}

// withEmptyName adds, for every allowed position in the first file, the same offset under the empty name.
func withEmptyName(allowed map[hist.Pos]bool, first string) map[hist.Pos]bool {
	out := map[hist.Pos]bool{}
	for k, v := range allowed {
		out[k] = v
		if k.File == first {
			out[hist.Pos{File: "", Off: k.Off}] = v
		}
	}
	return out
}

// cutAfterCommits truncates the script right after the n-th commit event it carries.
func cutAfterCommits(l *hist.Layout, n, extra int) func([]fakemaster.Step, []int) []fakemaster.Step {
	return func(steps []fakemaster.Step, evIdx []int) []fakemaster.Step {
		seen := 0
		for i, ev := range evIdx {
			if ev >= 0 && l.Events[ev].Commit {
				seen++
				if seen == n {
					// up to extra further packets, but never another commit event and never the final EOF
					for k := 0; k < extra && i+1 < len(steps)-1 && i+1 < len(evIdx) && !(evIdx[i+1] >= 0 && l.Events[evIdx[i+1]].Commit); k++ {
						i++
					}
					steps = steps[:i+1]
					steps[i].Then = fakemaster.CloseFIN
					return steps
				}
			}
		}
		return steps
	}
}

func checkCommands(cmds []fakemaster.Command, serverID uint32, allowed map[hist.Pos]bool, attemptNo int) error {
	dumps, sawChecksum := 0, false
	for _, c := range cmds {
		switch c.Code {
		case 0x03:
			q := strings.ToLower(c.Query)
			if dumps == 0 && strings.Contains(q, "set") && strings.Contains(q, "@master_binlog_checksum") {
				sawChecksum = true
			}
		case 0x12:
			dumps++
			if !sawChecksum {
				return fmt.Errorf("attempt %d: binlog dump requested before @master_binlog_checksum was set (commands: %s)", attemptNo, cmdSummary(cmds))
			}
			if c.Flags&0x01 != 0 {
				return fmt.Errorf("attempt %d: dump request carries BINLOG_DUMP_NON_BLOCK (flags %#x)", attemptNo, c.Flags)
			}
			if c.ServerID != serverID {
				return fmt.Errorf("attempt %d: dump request carries server id %d, configured %d", attemptNo, c.ServerID, serverID)
			}
			if !allowed[hist.Pos{File: c.File, Off: int64(c.Pos)}] {
				return fmt.Errorf("attempt %d: dump request asks for %q:%d, the streamer's position is %v", attemptNo, c.File, c.Pos, keys(allowed))
			}
		case 0x1e:
			return fmt.Errorf("attempt %d: COM_BINLOG_DUMP_GTID sent", attemptNo)
		}
	}
	if dumps != 1 {
		return fmt.Errorf("attempt %d: %d binlog dump requests, want exactly 1 (commands: %s)", attemptNo, dumps, cmdSummary(cmds))
	}
	return nil
}

func cmdSummary(cmds []fakemaster.Command) string {
	var s []string
	for _, c := range cmds {
		switch c.Code {
		case 0x03:
			s = append(s, fmt.Sprintf("QUERY(%.60q)", c.Query))
		case 0x12:
			s = append(s, fmt.Sprintf("DUMP(%q:%d id=%d flags=%d)", c.File, c.Pos, c.ServerID, c.Flags))
		default:
			s = append(s, fmt.Sprintf("cmd%#x", c.Code))
		}
	}
	return strings.Join(s, " ")
}

func checkC07(c *HandshakeCase) error {
	l, err := c.H.Lay()
	if err != nil {
		return fmt.Errorf("harness: %v", err)
	}
	start := hist.Pos{File: c.H.FirstFile, Off: c.H.Base}
	if c.StartAt4 && c.H.Base == c.H.MinBase() {
		start.Off = 4
	}
	exp := l.Expected(start, 0)
	callerStart := start
	if c.EmptyName {
		callerStart.File = ""
	}
	ss, err := newSession(c.H.Tables, c.ServerID, callerStart)
	if err != nil {
		return fmt.Errorf("harness: %v", err)
	}
	defer ss.close()
	allowed := map[hist.Pos]bool{callerStart: true} // first attempt: exactly the SetBinlogPosition value
	accepted := 0
	for i := 0; i <= len(c.Cuts); i++ {
		at := attempt{l: l}
		connectFails := false
		if i > 0 && i < len(c.Rewind) && c.Rewind[i] >= 0 {
			k := c.Rewind[i]
			if k > accepted {
				k = accepted
			}
			to := callerStart
			if k > 0 {
				to = exp[k-1].Next
			}
			ss.s.SetBinlogPosition(gobinlog.Position{Filename: to.File, Offset: to.Off})
			allowed = map[hist.Pos]bool{to: true}
			accepted = k
		}
		if i < len(c.Cuts) {
			switch {
			case c.Cuts[i] == -1: // the master refuses the session right at the greeting
				at.plan = &fakemaster.ConnPlan{HandshakeErr: fakemaster.ErrPacket(1040, "08004", "Too many connections")}
				connectFails = true
			case c.Cuts[i] == -2: // the master rejects the checksum announcement
				at.plan = &fakemaster.ConnPlan{QueryErr: fakemaster.ErrPacket(1227, "42000", "Access denied")}
				connectFails = true
			case c.Cuts[i] == -4: // the handler panics in its first call and the caller recovers
				at.handler = func(tx *gobinlog.Transaction, st *attemptState) error { panic(handlerPanic{}) }
			case c.Cuts[i] == -3: // the session is set up, then the write of the dump command fails on the replica's side
				disarm := failDumpWrite()
				defer disarm()
				at.afterReturn = func(*attemptState) { disarm() }
				connectFails = true
			default:
				extra := 0
				if i < len(c.CutExtra) {
					extra = c.CutExtra[i]
				}
				at.mutate = cutAfterCommits(l, c.Cuts[i], extra)
			}
		}
		if (c.Deadlines>>uint(i))&1 == 1 {
			// the caller's context carries a (far) deadline: the request must stay a blocking one
			dctx, dcancel := context.WithTimeout(context.Background(), time.Hour)
			defer dcancel()
			at.ctx, at.fallbackCancel = dctx, dcancel
		}
		st := ss.run(at)
		st.drainLib()
		if err := st.panicErr(); err != nil {
			return err
		}
		if connectFails {
			for _, cmd := range st.plan.Cmds() {
				if cmd.Code == 0x12 {
					return fmt.Errorf("attempt %d: a dump was requested although the session setup failed", i+1)
				}
			}
			continue // the position must be unchanged: judged by the next attempt's dump request
		}
		if c.EmptyName {
			allowed = withEmptyName(allowed, c.H.FirstFile)
		}
		if err := checkCommands(st.plan.Cmds(), c.ServerID, allowed, i+1); err != nil {
			return err
		}
		if !st.served {
			return fmt.Errorf("attempt %d: harness could not serve %+v", i+1, st.dumpReq)
		}
		// deliveries continue the expectation (also guards the position bookkeeping of this check)
		expNow := exp[accepted:min(len(exp), accepted+len(st.got))]
		if req, ok := st.dump(); ok && i > 0 && !c.EmptyName {
			expNow = resumedLabels(l, expNow, hist.Pos{File: req.File, Off: int64(req.Pos)})
		}
		if err := compareTxs(st.got, expNow, !c.EmptyName); err != nil {
			return fmt.Errorf("attempt %d: %v", i+1, err)
		}
		accepted += len(st.got)
		var asked *hist.Pos
		if st.handlerPanicked {
			// what the streamer keeps after a panic that unwound through Stream is not specified beyond this:
			// it is the position the attempt started from or a resume point behind what was accepted
			if req, ok := st.dump(); ok {
				asked = &hist.Pos{File: req.File, Off: int64(req.Pos)}
			}
		}
		if accepted > 0 || i > 0 || len(c.Cuts) > 0 {
			// later attempts: the stored resume position = the commit boundary after the last accepted
			// transaction (or a unit boundary / rotation target up to the next transaction)
			allowed = allowedResume(l, exp, accepted, start, 0)
			if accepted == 0 {
				allowed = map[hist.Pos]bool{callerStart: true}
				for k, v := range allowedResume(l, exp, 0, start, 0) {
					allowed[k] = v
				}
			}
			if asked != nil {
				allowed[*asked] = true
			}
		}
	}
	if accepted != len(exp) {
		return fmt.Errorf("after all attempts %d transactions were accepted, the history has %d", accepted, len(exp))
	}
	return nil
}

func min(a, b int) int {
	if a < b {
		return a
	}
	return b
}

func init() {
	registerReplay("c07", func(raw json.RawMessage) error {
		var c HandshakeCase
		if err := json.Unmarshal(raw, &c); err != nil {
			return err
		}
		return checkC07(&c)
	})
}

func TestC07(t *testing.T) {
	rec := recorder("C07")
	defer rec.Flush(t)
	o := gen.DefaultHistOpt(limits(), false)
	o.MaxUnits, o.MaxItems, o.MaxRows, o.MaxCols, o.MaxTables = 5, 2, 2, 3, 1
	o.Rotations = 1
	o.Ignorables = false
	o.BigBase = false
	o.Scale = false
	o.Col = gen.ColumnOpt{Only: []byte{refenc.TLong, refenc.TVarchar, refenc.TTiny}, NoHeavy: true}
	o.Kinds = []hist.UnitKind{hist.UTxXID, hist.UTxCommit, hist.UDDL}
	rapidCheck(t, func(rt *rapid.T) {
		c := &HandshakeCase{H: gen.History(rt, o)}
		c.ServerID = rapid.SampledFrom([]uint32{1, 1<<31 - 1, 1 << 31, 1<<32 - 1, 0}).Draw(rt, "server_id")
		if c.ServerID == 0 {
			c.ServerID = rapid.Uint32Range(1, 1<<32-1).Draw(rt, "server_id_rnd")
		}
		// file name: 1..200 bytes
		switch rapid.IntRange(0, 3).Draw(rt, "fname_k") {
		case 0:
			c.H.FirstFile = fmt.Sprintf("mysql-bin.%06d", rapid.IntRange(1, 999999).Draw(rt, "fname_n"))
		case 1:
			c.H.FirstFile = strings.ReplaceAll(gen.Name(rt, "fname", 200), "\x00", "_")
		case 2:
			c.H.FirstFile = strings.Repeat("b", rapid.IntRange(1, 200).Draw(rt, "fname_len")) + ".1"
			if len(c.H.FirstFile) > 200 {
				c.H.FirstFile = c.H.FirstFile[:200]
			}
		default:
			c.H.FirstFile = rapid.SampledFrom([]string{"a", "bin log.000001", "日志.000003", "x.y.z.000009", "./rel/path-bin.000001"}).Draw(rt, "fname_s")
		}
		// file names of one history are distinct (a master never reuses a name)
		for _, u := range c.H.Units {
			if (u.Kind == hist.URotate || u.Kind == hist.UFileEnd) && u.NextFile == c.H.FirstFile {
				c.H.FirstFile += ".first"
			}
		}
		// offset
		l0, err := c.H.Lay()
		if err != nil {
			rt.Skip(err.Error())
		}
		size := int64(0)
		for _, e := range l0.Events {
			if e.File == 0 && e.End-c.H.Base > size {
				size = e.End - c.H.Base
			}
		}
		switch rapid.IntRange(0, 5).Draw(rt, "off_k") {
		case 0:
			c.StartAt4 = true
		case 1:
			c.H.Base = 1<<31 - 1
		case 2:
			c.H.Base = 1<<31 + 1
		case 3:
			c.H.Base = 1<<32 - 1 - size
		case 4:
			c.H.Base = int64(rapid.Uint32Range(uint32(c.H.MinBase()), uint32(1<<32-1-size)).Draw(rt, "base"))
		}
		if c.H.Base < c.H.MinBase() {
			c.H.Base = c.H.MinBase()
		}
		c.Deadlines = rapid.IntRange(0, 15).Draw(rt, "deadline_mask")
		c.EmptyName = rapid.IntRange(0, 7).Draw(rt, "empty_start_name") == 0
		na := rapid.IntRange(0, 3).Draw(rt, "failed_attempts")
		for i := 0; i < na; i++ {
			c.Cuts = append(c.Cuts, rapid.IntRange(-4, 3).Draw(rt, "cut"))
			c.CutExtra = append(c.CutExtra, rapid.IntRange(0, 3).Draw(rt, "cut_extra"))
		}
		if na > 0 && rapid.IntRange(0, 2).Draw(rt, "rewinds") == 0 {
			c.Rewind = []int{-1}
			for i := 1; i <= na; i++ {
				c.Rewind = append(c.Rewind, rapid.IntRange(-1, 3).Draw(rt, "rewind_to"))
			}
		}
		// a cut of 0 means: close before any commit (use 1-based semantics: 0 -> cut at first commit is skipped)
		nt := c.ServerID >= 1<<31 || c.H.Base >= 1<<31 || len(c.Cuts) >= 1
		cls := []string{fmt.Sprintf("attempts=%d", len(c.Cuts)+1)}
		if c.ServerID >= 1<<31 {
			cls = append(cls, "server-id>=2^31")
		}
		if c.H.Base >= 1<<31 {
			cls = append(cls, "offset>=2^31")
		}
		if c.StartAt4 {
			cls = append(cls, "offset=4")
		}
		if len(c.Rewind) > 0 {
			cls = append(cls, "caller-repositions-between-attempts")
		}
		rec.Case(nt, c, cls...)
		if nt {
			rec.Sample(c)
		}
		journal("C07", "c07", c)
		if err := checkC07(c); err != nil {
			rec.Violation("c07", c, "", err)
			rt.Fatalf("C07 violation: %v", err)
		}
	})
}
