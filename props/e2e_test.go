package props

import (
	"context"
	"encoding/json"
	"errors"
	"fmt"
	"runtime"
	"strings"
	"sync"
	"sync/atomic"
	"time"

	"github.com/Breeze0806/gobinlog"

	"verif/fakemaster"
	"verif/hist"
	"verif/sched"
)

// ---- harness-owned table mapper ---------------------------------------------

type mcol struct {
	name     string
	unsigned bool
}

func (c mcol) Field() string       { return c.name }
func (c mcol) IsUnSignedInt() bool { return c.unsigned }

type mtable struct {
	name gobinlog.MysqlTableName
	cols []gobinlog.MysqlColumn
}

func (t *mtable) Name() gobinlog.MysqlTableName   { return t.name }
func (t *mtable) Columns() []gobinlog.MysqlColumn { return t.cols }

type mapper struct {
	mu     sync.Mutex
	tables map[string]*hist.Table
	calls  []gobinlog.MysqlTableName
	// fault injection
	failAt   int   // fail the n-th call (1-based); 0 = never
	failErr  error // error to return
	failFull bool  // the failing call returns a complete, usable table description next to its error
	deltaAt  int   // n-th call returns a table with a wrong column count
	delta    int
	ncalls   int
	fired    bool // an injected mapper fault was actually delivered to the library
	override func(name gobinlog.MysqlTableName, call int) (gobinlog.MysqlTable, error, bool)
	// shared: the mapper hands out the SAME table description object (and column slice) every time a table
	// is asked for, as a mapper with its own schema cache does; otherwise a fresh one per call.  Chosen by
	// a hash of the table names so that a replayed case behaves the same.
	shared bool
	hash   uint32
	cache  map[string]*mtable
	src    map[string]*hist.Table // what each cached description was built from
}

func newMapper(tables []hist.Table) *mapper {
	m := &mapper{tables: map[string]*hist.Table{}, cache: map[string]*mtable{}, src: map[string]*hist.Table{}}
	h := uint32(2166136261)
	for i := range tables {
		m.tables[tables[i].DB+"\x00"+tables[i].Name] = &tables[i]
		for _, b := range []byte(tables[i].Name) {
			h = (h ^ uint32(b)) * 16777619
		}
		h = (h ^ uint32(len(tables[i].Cols))) * 16777619
	}
	m.shared, m.hash = h&1 == 1, h
	return m
}

func (m *mapper) MysqlTable(name gobinlog.MysqlTableName) (gobinlog.MysqlTable, error) {
	m.mu.Lock()
	defer m.mu.Unlock()
	m.calls = append(m.calls, name)
	m.ncalls++
	if m.override != nil {
		if t, err, ok := m.override(name, m.ncalls); ok {
			return t, err
		}
	}
	if m.failAt == m.ncalls {
		m.fired = true
		if t, ok := m.tables[name.DbName+"\x00"+name.TableName]; ok && m.failFull {
			// e.g. a stale cached definition handed back together with the refresh error
			mt := &mtable{name: name}
			for _, c := range t.Cols {
				mt.cols = append(mt.cols, mcol{c.Name, c.Unsigned})
			}
			return mt, m.failErr
		}
		return &mtable{name: name}, m.failErr
	}
	t, ok := m.tables[name.DbName+"\x00"+name.TableName]
	if !ok {
		return &mtable{name: name}, fmt.Errorf("harness mapper: unknown table %q.%q", name.DbName, name.TableName)
	}
	key := name.DbName + "\x00" + name.TableName
	if m.shared && m.deltaAt != m.ncalls {
		if mt, ok := m.cache[key]; ok && m.src[key] == t {
			return mt, nil
		}
	}
	mt := &mtable{name: name}
	for _, c := range t.Cols {
		mt.cols = append(mt.cols, mcol{c.Name, c.Unsigned})
	}
	if m.shared && m.deltaAt != m.ncalls {
		m.cache[key], m.src[key] = mt, t
	}
	if m.deltaAt == m.ncalls {
		m.fired = true
		if m.delta > 0 {
			for i := 0; i < m.delta; i++ {
				mt.cols = append(mt.cols, mcol{fmt.Sprintf("extra%d", i), false})
			}
		} else if -m.delta < len(mt.cols) {
			mt.cols = mt.cols[:len(mt.cols)+m.delta]
		} else {
			mt.cols = nil
		}
	}
	return mt, nil
}

func (m *mapper) Calls() []gobinlog.MysqlTableName {
	m.mu.Lock()
	defer m.mu.Unlock()
	return append([]gobinlog.MysqlTableName{}, m.calls...)
}

// ---- one stream attempt -----------------------------------------------------

// Pacing of the simulated master.
const (
	PaceFarAhead = 0 // everything is written at once
	PaceLockStep = 1 // one packet, then wait until the library is quiescent
)

// attempt describes how one Stream call is driven.
type attempt struct {
	l       *hist.Layout
	pacing  int
	handler func(tx *gobinlog.Transaction, a *attemptState) error
	ctx     context.Context
	// mutate lets a check rewrite the dump script (fault injection); it gets the
	// fault-free steps and the layout event index carried by each (-1: artificial).
	mutate func(steps []fakemaster.Step, evIdx []int) []fakemaster.Step
	plan   *fakemaster.ConnPlan // optional pre-built plan (connect-phase faults)
	// onState is called with the attempt's state before Stream starts.
	onState func(*attemptState)
	// afterReturn is called right after Stream returned, before the master's side
	// of the connection is released (C05 observes the close from there).
	afterReturn    func(*attemptState)
	fallbackCancel context.CancelFunc // cancels ctx when the caller owns it and the stall fallback fires
	fallback       time.Duration      // how long to wait before the harness cancels on its own (default 20s)
	// onStall is called when Stream has not returned within the fallback time, before the
	// harness cancels anything (C05 takes its blocked-state proof there).
	onStall func(*attemptState)
	noEOF   bool // do not append the EOF packet (the check ends the stream some other way)
	// noSnapshot / noMangle: the check does its own bookkeeping of what the handler was handed (C08)
	noSnapshot, noMangle bool
	// noRetain: the harness does not keep the transactions it was handed either (a check that wants the
	// garbage collector to see them as unreachable)
	noRetain bool
}

// attemptState is what the harness observed during one attempt.
type attemptState struct {
	plan            *fakemaster.ConnPlan
	dumpReq         *fakemaster.Command
	served          bool // the request named valid coordinates
	evIdx           []int
	steps           int
	snaps           []*gobinlog.Transaction // per accepted transaction: its copy taken at the handler call (nil: mangled)
	unstable        error
	handlerPanicked bool
	streamGID       atomic.Int64 // (atomic.Int64 is 8-byte aligned on 32-bit builds too)
	inHandler       int32
	maxInHand       int32
	calls           int32
	afterRet        int32 // handler calls that started or were running after Stream returned
	returned        int32
	handlerGID      []int
	got             []*gobinlog.Transaction
	writtenAt       []int // steps the master had begun to write when handler call k started
	streamErr       error
	streamDone      chan struct{}
	baseline        map[int]bool
	fellBack        bool   // the harness had to cancel because Stream did not end on its own
	panicked        string // non-empty: Stream panicked with this value
	mu              sync.Mutex
}

func (a *attemptState) dump() (fakemaster.Command, bool) {
	a.mu.Lock()
	defer a.mu.Unlock()
	if a.dumpReq == nil {
		return fakemaster.Command{}, false
	}
	return *a.dumpReq, true
}

// buildSteps turns a dump request into the fault-free script.
func buildSteps(l *hist.Layout, req fakemaster.Command, withEOF bool) ([]fakemaster.Step, []int, bool) {
	payloads, evIdx, files, ok := l.ServedFiles(req.File, int64(req.Pos))
	if !ok {
		return []fakemaster.Step{{Payload: fakemaster.ErrPacket(1236, "HY000", "Could not find first log file name in binary log index file"), Tag: -2}}, []int{-2}, false
	}
	steps := make([]fakemaster.Step, 0, len(payloads)+1)
	for i, p := range payloads {
		steps = append(steps, fakemaster.Step{Payload: fakemaster.EventPacket(p), Tag: evIdx[i], Aux: files[i]})
	}
	if withEOF {
		steps = append(steps, fakemaster.Step{Payload: fakemaster.EOFPacket(), Tag: -3})
		evIdx = append(evIdx, -3)
	}
	return steps, evIdx, true
}

// quiescent reports whether the library is parked with nothing left to do: the
// Stream goroutine blocked outside the handler and every library goroutine
// blocked, with the reader waiting for the network.
func (a *attemptState) quiescent() bool {
	if atomic.LoadInt32(&a.inHandler) != 0 {
		return false
	}
	gs := sched.Probe()
	sg, ok := sched.Find(gs, int(a.streamGID.Load()))
	if !ok || !sched.Blocked(sg.State) {
		return false
	}
	sawReader := false
	for _, g := range sched.Lib(gs, a.baseline) {
		if !sched.Blocked(g.State) {
			return false
		}
		if sched.HasFrame(g, "readBinlogEvent") || sched.HasFrame(g, "ReadPacket") {
			if g.State != "IO wait" {
				return false
			}
			sawReader = true
		}
	}
	return sawReader
}

// waitQuiescent waits (bounded) for two consecutive quiescent probes with no
// progress in between.  It returns false if Stream ended or the bound passed.
func (a *attemptState) waitQuiescent(bound time.Duration) bool {
	deadline := time.Now().Add(bound)
	ok := 0
	lastCalls := atomic.LoadInt32(&a.calls)
	for time.Now().Before(deadline) {
		select {
		case <-a.streamDone:
			return false
		default:
		}
		c := atomic.LoadInt32(&a.calls)
		if a.quiescent() && c == lastCalls {
			ok++
			if ok >= 2 {
				return true
			}
		} else {
			ok = 0
		}
		lastCalls = c
		time.Sleep(20 * time.Microsecond)
	}
	return false
}

// session is a streamer plus its simulated master; several attempts can be run
// on the same streamer.
type session struct {
	m        *fakemaster.Master
	s        *gobinlog.Streamer
	mp       *mapper
	serverID uint32
	// mangle: the handler of this session's attempts treats what it is handed as its own: once the
	// check's handler has accepted a transaction (and the harness has copied it), positions, timestamp,
	// event list, names, flags and value bytes of the original are overwritten.  Chosen like mapper.shared.
	mangle bool
}

func newSession(tables []hist.Table, serverID uint32, start hist.Pos) (*session, error) {
	return newSessionNet(tables, serverID, start, "verifdial")
}

func newSessionNet(tables []hist.Table, serverID uint32, start hist.Pos, network string, dsnParams ...string) (*session, error) {
	m, err := fakemaster.New()
	if err != nil {
		return nil, err
	}
	mp := newMapper(tables)
	dsn := m.DSNNet(network)
	if len(dsnParams) == 0 && mp.hash&24 == 8 {
		// a DSN as applications share it with database/sql: parameters that mean something to query results
		// (how DATETIME columns are scanned) and nothing to a binlog dump
		dsnParams = []string{"parseTime=true", "loc=UTC"}
	}
	if len(dsnParams) > 0 {
		dsn += "?" + strings.Join(dsnParams, "&")
	}
	// one session in four runs with a logger that really formats its messages, as the library's default
	// logger does (formatting calls String() methods and walks every argument)
	if mp.hash&(4+32) == 4 {
		atomic.StoreInt32(&logFormats, 1)
	} else {
		atomic.StoreInt32(&logFormats, 0)
	}
	s, err := gobinlog.NewStreamer(dsn, serverID, mp)
	if err != nil {
		m.Close()
		return nil, err
	}
	s.SetBinlogPosition(gobinlog.Position{Filename: start.File, Offset: start.Off})
	return &session{m: m, s: s, mp: mp, serverID: serverID, mangle: mp.hash&2 == 2}, nil
}

func (ss *session) close() { ss.m.Close() }

var errHarness = errors.New("harness")

// run performs one Stream attempt.  It returns once Stream has returned and the
// master-side connection handler has finished.
func (ss *session) run(at attempt) *attemptState {
	st := &attemptState{streamDone: make(chan struct{})}
	st.baseline = sched.IDs(sched.Probe())
	plan := at.plan
	if plan == nil {
		plan = &fakemaster.ConnPlan{}
	}
	st.plan = plan
	if plan.OnDump == nil {
		plan.OnDump = func(req fakemaster.Command) []fakemaster.Step {
			r := req
			steps, evIdx, ok := buildSteps(at.l, req, !at.noEOF)
			if at.mutate != nil && ok {
				steps = at.mutate(steps, evIdx)
			}
			st.mu.Lock()
			st.dumpReq = &r
			st.served = ok
			st.evIdx = evIdx
			st.steps = len(steps)
			st.mu.Unlock()
			return steps
		}
	}
	if at.pacing == PaceLockStep && plan.Gate == nil {
		plan.Gate = func(i int, s *fakemaster.Step) bool {
			if i > 0 {
				st.waitQuiescent(2 * time.Second)
			}
			return true
		}
	}
	ss.m.Plan(plan)
	if at.onState != nil {
		at.onState(st)
	}
	ctx := at.ctx
	var cancel context.CancelFunc
	if ctx == nil {
		ctx, cancel = context.WithCancel(context.Background())
		defer cancel() // hygiene only; a caller that wants to observe what is left behind passes its own context
	} else {
		// the caller owns the context: it is never cancelled behind its back (except by the stall fallback)
		cancel = func() {}
		if at.fallbackCancel != nil {
			cancel = at.fallbackCancel
		}
	}
	handler := func(tx *gobinlog.Transaction) error {
		n := atomic.AddInt32(&st.inHandler, 1)
		defer atomic.AddInt32(&st.inHandler, -1)
		for {
			m := atomic.LoadInt32(&st.maxInHand)
			if n <= m || atomic.CompareAndSwapInt32(&st.maxInHand, m, n) {
				break
			}
		}
		if atomic.LoadInt32(&st.returned) != 0 {
			atomic.AddInt32(&st.afterRet, 1)
		}
		atomic.AddInt32(&st.calls, 1)
		st.mu.Lock()
		st.writtenAt = append(st.writtenAt, plan.Started())
		st.handlerGID = append(st.handlerGID, sched.Self())
		st.mu.Unlock()
		var err error
		var snap *gobinlog.Transaction
		if !at.noSnapshot {
			snap = cloneTx(tx) // what the handler was handed, as it read at that moment
		}
		if at.handler != nil {
			err = at.handler(tx, st)
		}
		if err == nil {
			st.mu.Lock()
			if snap != nil && ss.mangle && !at.noMangle {
				st.got = append(st.got, snap)
				st.snaps = append(st.snaps, nil)
				mangleTx(tx)
			} else if at.noRetain {
				st.got = append(st.got, nil)
				st.snaps = append(st.snaps, nil)
			} else {
				st.got = append(st.got, tx)
				st.snaps = append(st.snaps, snap)
			}
			st.mu.Unlock()
		}
		if atomic.LoadInt32(&st.returned) != 0 {
			atomic.AddInt32(&st.afterRet, 1)
		}
		return err
	}
	go func() {
		st.streamGID.Store(int64(sched.Self()))
		defer func() {
			// a panic on the caller's goroutine (parser, decoders) must not take the test process
			// down: it is recorded and every check that looks at this attempt reports it
			if r := recover(); r != nil {
				if _, mine := r.(handlerPanic); mine {
					// the harness handler panicked on purpose and the caller (this goroutine) recovers, as an
					// application with a recover() around its consumer does
					st.handlerPanicked = true
					atomic.StoreInt32(&st.returned, 1)
					close(st.streamDone)
					return
				}
				buf := make([]byte, 4096)
				buf = buf[:runtime.Stack(buf, false)]
				st.panicked = fmt.Sprintf("%v", r)
				st.streamErr = fmt.Errorf("PANIC inside Stream: %v\n%s", r, firstLibFrames(string(buf)))
			}
			atomic.StoreInt32(&st.returned, 1)
			close(st.streamDone)
		}()
		st.streamErr = ss.s.Stream(ctx, handler)
		// what the handler was handed must still read the same when Stream has returned
		st.mu.Lock()
		for i, snap := range st.snaps {
			if snap != nil && !txEqual(snap, st.got[i]) {
				a, _ := json.Marshal(snap)
				b, _ := json.Marshal(st.got[i])
				st.unstable = fmt.Errorf("delivered transaction %d reads differently after Stream returned than inside its handler call:\n in the handler: %.500s\n afterwards: %.500s", i, a, b)
				break
			}
		}
		st.mu.Unlock()
	}()
	// Fallback only: if Stream does not end on its own a short while after the
	// script was written out, cancel and release.  Checks other than C05/C06 do
	// not judge how the stream ended.
	fb := at.fallback
	if fb == 0 {
		fb = 20 * time.Second
	}
	// The stall clock only runs while the master is idle: as long as it keeps writing packets
	// (long histories, lock-step pacing on a busy machine) Stream is rightly still working.
	lastStarted, idleSince := plan.Started(), time.Now()
	stalled := false
	for !stalled {
		select {
		case <-st.streamDone:
		case <-time.After(fb / 8):
			if n := plan.Started(); n != lastStarted {
				lastStarted, idleSince = n, time.Now()
			}
			if time.Since(idleSince) < fb {
				continue
			}
			stalled = true
		}
		break
	}
	if stalled {
		st.fellBack = true
		if at.onStall != nil {
			at.onStall(st)
		}
		cancel()
		plan.Release()
		select {
		case <-st.streamDone:
		case <-time.After(20 * time.Second):
		}
	}
	if at.afterReturn != nil {
		at.afterReturn(st)
	}
	plan.Release()
	if plan.Accepted() {
		select {
		case <-plan.Finished:
		case <-time.After(10 * time.Second):
		}
	}
	return st
}

// drainLib waits a short bounded time for library goroutines of this attempt to
// go away (hygiene between cases; not a verdict).
func (st *attemptState) drainLib() {
	sched.WaitNoLib(st.baseline, 200*time.Millisecond)
}

// firstLibFrames extracts the library frames of a stack dump (for messages).
func firstLibFrames(stack string) string {
	var out []string
	for _, line := range strings.Split(stack, "\n") {
		if strings.Contains(line, "Breeze0806/gobinlog") && !strings.HasPrefix(line, "\t") {
			out = append(out, strings.TrimSpace(line))
			if len(out) >= 4 {
				break
			}
		}
	}
	return strings.Join(out, " <- ")
}

// panicErr reports a panic that escaped from Stream during this attempt.
func (a *attemptState) panicErr() error {
	if a.panicked != "" {
		return a.streamErr
	}
	return a.unstable
}

// handlerPanic is the value the harness handler panics with when a scenario asks for it.
type handlerPanic struct{}

// mangleTx overwrites everything a handler can reach through the transaction it was handed.
func mangleTx(tx *gobinlog.Transaction) {
	tx.NowPosition = gobinlog.Position{Filename: "/handler/owns/this", Offset: 1}
	tx.NextPosition = gobinlog.Position{Filename: "", Offset: 0}
	tx.Timestamp = -1
	for _, e := range tx.Events {
		if e == nil {
			continue
		}
		e.Table = gobinlog.NewMysqlTableName("mangled", "mangled")
		e.Query.SQL, e.Query.Database, e.Query.Charset = "mangled", "mangled", nil
		e.Timestamp = -1
		for _, rows := range [][]*gobinlog.RowData{e.RowValues, e.RowIdentifies} {
			for _, r := range rows {
				if r == nil {
					continue
				}
				for _, c := range r.Columns {
					if c == nil {
						continue
					}
					for i := range c.Data {
						c.Data[i] = 0xEE
					}
					c.Filed, c.IsEmpty, c.Data = "mangled", !c.IsEmpty, []byte("mangled")
				}
				r.Columns = r.Columns[:0]
			}
		}
		e.RowValues, e.RowIdentifies = nil, nil
	}
	for i := range tx.Events {
		tx.Events[i] = nil
	}
	tx.Events = tx.Events[:0]
}
