package props

import (
	"encoding/json"
	"fmt"
	"strings"
	"sync"
	"testing"

	"github.com/Breeze0806/gobinlog"
	"pgregory.net/rapid"

	"verif/gen"
	"verif/hist"
	"verif/refenc"
)

// ---- deterministic unit alphabet for the exhaustive part ---------------------

const c02Alphabet = 15

var c02Names = []string{"txXID", "txCommit", "txRollback", "txXID+ignorables", "ddl", "autoRows", "stmtDML", "rotate", "gtid", "anonGtid", "prevGtids", "heartbeat", "unknownEvent", "unknownStmt", "fileEndNoRotate"}

func c02Table() hist.Table {
	return hist.Table{DB: "d", Name: "t", ID: 7, Cols: []hist.Column{{Name: "tag", Type: refenc.TLong}, {Name: "v", Type: refenc.TVarchar, Len: 20, Nullable: true}}}
}

type seqBuilder struct {
	h    *hist.History
	tag  uint64
	ts   uint32
	file int
	salt int
}

func (b *seqBuilder) t() uint32 { b.ts++; return b.ts }

func (b *seqBuilder) word(w string) string {
	switch (b.salt + int(b.tag)) % 4 {
	case 0:
		return strings.ToUpper(w)
	case 1:
		return strings.ToLower(w)
	case 2:
		return strings.ToUpper(w[:1]) + strings.ToLower(w[1:])
	}
	return strings.ToLower(w[:1]) + strings.ToUpper(w[1:])
}

func (b *seqBuilder) q(sql string) *hist.Query { return &hist.Query{DB: "d", SQL: sql, TS: b.t()} }

func (b *seqBuilder) rows(kind int) hist.RowsEv {
	b.tag++
	full := []bool{true, true}
	val := func() []hist.Value {
		return []hist.Value{{U: b.tag}, {B: refenc.Lit([]byte(fmt.Sprintf("r%d", b.tag)))}}
	}
	r := hist.RowsEv{Table: 0, Kind: kind, Present1: full, TS: b.t()}
	switch kind {
	case 0:
		r.Rows = []hist.Row{{After: val()}}
	case 1:
		r.Present2 = full
		bf := val()
		b.tag++
		r.Rows = []hist.Row{{Before: bf, After: val()}}
	case 2:
		r.Rows = []hist.Row{{Before: val()}}
	}
	return r
}

func (b *seqBuilder) rowsItem(kinds ...int) hist.Item {
	it := hist.Item{Kind: hist.IRows, Maps: []int{0}, TS: b.t()}
	for _, k := range kinds {
		it.Rows = append(it.Rows, b.rows(k))
	}
	return it
}

func (b *seqBuilder) add(sym int) {
	u := hist.Unit{}
	switch sym {
	case 0:
		u = hist.Unit{Kind: hist.UTxXID, Begin: b.q(b.word("begin")), Items: []hist.Item{b.rowsItem(0, 1)}, XID: b.tag + 1000}
		u.TS = b.t()
	case 1:
		b.tag++
		u = hist.Unit{Kind: hist.UTxCommit, Begin: b.q(b.word("begin")), Items: []hist.Item{b.rowsItem(2), {Kind: hist.IQuery, Q: b.q(fmt.Sprintf("%s INTO t VALUES (%d)", b.word("insert"), b.tag))}}}
		u.End = b.q(b.word("commit"))
	case 2:
		u = hist.Unit{Kind: hist.UTxRollback, Begin: b.q(b.word("begin")), Items: []hist.Item{b.rowsItem(0)}}
		u.End = b.q(b.word("rollback"))
	case 3:
		u = hist.Unit{Kind: hist.UTxXID, Begin: b.q(b.word("begin")), Items: []hist.Item{
			{Kind: hist.IUnknownEvent, EvType: refenc.EvIgnorable, Body: []byte{1, 2, 3}, TS: b.t()},
			b.rowsItem(0),
			{Kind: hist.IUnknownStmt, Q: b.q("SAVEPOINT sp")},
			b.rowsItem(1, 2),
			{Kind: hist.IUnknownEvent, EvType: refenc.EvUnknown, Body: nil, TS: b.t()},
		}, XID: b.tag + 2000}
		u.TS = b.t()
	case 4:
		b.tag++
		u = hist.Unit{Kind: hist.UDDL, Q: b.q(fmt.Sprintf("%s TABLE x%d (a int)", b.word("create"), b.tag))}
	case 5:
		r := b.rows(0)
		u = hist.Unit{Kind: hist.UAutoRows, Items: []hist.Item{{Kind: hist.IRows, Maps: []int{0}, Rows: []hist.RowsEv{r}, TS: r.TS}}}
	case 6:
		b.tag++
		u = hist.Unit{Kind: hist.UStmtDML, Q: b.q(fmt.Sprintf("%s t SET tag = %d", b.word("update"), b.tag))}
	case 7:
		b.file++
		u = hist.Unit{Kind: hist.URotate, NextFile: fmt.Sprintf("bin.%06d", b.file), TS: b.t()}
	case 8:
		u = hist.Unit{Kind: hist.UGTID, SID: [16]byte{1, 2, 3}, GNO: int64(b.tag) + 1, TS: b.t()}
	case 9:
		u = hist.Unit{Kind: hist.UAnonGTID, TS: b.t()}
	case 10:
		u = hist.Unit{Kind: hist.UPrevGTIDs, TS: b.t(), Prev: []refenc.SIDIntervals{{SID: [16]byte{1, 2, 3}, Intervals: [][2]int64{{1, 5}}}}}
	case 11:
		u = hist.Unit{Kind: hist.UHeartbeat}
	case 12:
		u = hist.Unit{Kind: hist.UUnknownEvent, EvType: refenc.EvTxContext, Body: []byte{9, 9}, TS: b.t()}
	case 13:
		u = hist.Unit{Kind: hist.UUnknownStmt, Q: b.q("FLUSH TABLES")}
	case 14:
		b.file++
		u = hist.Unit{Kind: hist.UFileEnd, NextFile: fmt.Sprintf("bin.%06d", b.file)}
		if b.salt%2 == 0 {
			u.EvType, u.TS = refenc.EvStop, b.t()
		}
	}
	b.h.Units = append(b.h.Units, u)
}

// seqHistory builds the history of a symbol sequence; variant selects checksum /
// rows version / casing salt.
func seqHistory(seq []int, variant int) *hist.History {
	h := &hist.History{FirstFile: "bin.000001", Tables: []hist.Table{c02Table()}}
	h.Cfg = hist.Cfg{Checksum: variant&1 == 1, RowsV2: variant&2 == 2, TableIDBytes: 6, GTID57: variant&4 == 4, ServerVersion: "5.7.30-log", NHeaderSizes: 40, ServerID: 11, CreateTS: 100}
	if !h.Cfg.RowsV2 && variant&8 == 8 {
		h.Cfg.TableIDBytes = 4
	}
	b := &seqBuilder{h: h, file: 1, salt: variant, ts: 1000}
	for _, s := range seq {
		b.add(s)
	}
	h.Base = h.MinBase()
	return h
}

// SeqCase is one exhaustive-part case.
type SeqCase struct {
	Seq     []int
	Variant int
	Pacing  int
}

func deliveredTags(got []*gobinlog.Transaction) []string {
	var out []string
	for k, tx := range got {
		out = append(out, fmt.Sprintf("|tx%d", k))
		for _, e := range tx.Events {
			if e.Query.SQL != "" {
				out = append(out, "q:"+e.Query.SQL)
				continue
			}
			for i := range e.RowIdentifies {
				if len(e.RowIdentifies[i].Columns) > 0 && !e.RowIdentifies[i].Columns[0].IsEmpty {
					out = append(out, "b:"+string(e.RowIdentifies[i].Columns[0].Data))
				}
			}
			for i := range e.RowValues {
				if len(e.RowValues[i].Columns) > 0 && !e.RowValues[i].Columns[0].IsEmpty {
					out = append(out, "a:"+string(e.RowValues[i].Columns[0].Data))
				}
			}
		}
	}
	return out
}

func expectedTags(exp []hist.ExpTx) []string {
	var out []string
	for k, tx := range exp {
		out = append(out, fmt.Sprintf("|tx%d", k))
		for _, e := range tx.Events {
			if e.IsQuery {
				out = append(out, "q:"+e.SQL)
				continue
			}
			for _, img := range e.Identifies {
				if !img[0].Absent {
					out = append(out, "b:"+string(img[0].Exp.Text))
				}
			}
			for _, img := range e.Values {
				if !img[0].Absent {
					out = append(out, "a:"+string(img[0].Exp.Text))
				}
			}
		}
	}
	return out
}

// checkBoundaries is C02's oracle on one streamed history: grouping equals the
// reference model, tags appear exactly once and in order, and no transaction is
// handed over before the master began to write its commit event.
func checkBoundaries(c *E2ECase, tagged bool) (*attemptState, []hist.ExpTx, error) {
	st, exp, _, err := runE2E(c)
	if err != nil {
		return st, exp, err
	}
	if err := compareTxs(st.got, exp, false); err != nil {
		return st, exp, fmt.Errorf("%v [stream err: %v]", err, st.streamErr)
	}
	if tagged {
		g, e := deliveredTags(st.got), expectedTags(exp)
		if strings.Join(g, ",") != strings.Join(e, ",") {
			return st, exp, fmt.Errorf("delivered changes %v, want %v", g, e)
		}
	}
	// not before commit
	stepOf := map[int]int{}
	for i, ev := range st.evIdx {
		if ev >= 0 {
			stepOf[ev] = i
		}
	}
	for k := range exp {
		if k >= len(st.writtenAt) {
			break
		}
		need := stepOf[exp[k].CommitEv] + 1
		if st.writtenAt[k] < need {
			return st, exp, fmt.Errorf("transaction %d (unit %d) reached the handler when the master had begun only %d packets; its commit event is packet %d", k, exp[k].Unit, st.writtenAt[k], need)
		}
	}
	return st, exp, nil
}

// CutCase is C02 part (4): a history whose stream is cut (connection closed or
// EOF packet) in front of packet At, possibly in the middle of a transaction.
type CutCase struct {
	E    E2ECase
	At   int
	Kind string // "fin" or "eof"
}

// checkCut: exactly the transactions whose commit event was sent are delivered;
// in particular nothing of a transaction that was cut before its commit.
func checkCut(c *CutCase) (int, int, error) {
	l, start, su, err := c.E.layout()
	if err != nil {
		return 0, 0, fmt.Errorf("harness: %v", err)
	}
	exp := l.Expected(start, su)
	ss, err := newSession(c.E.H.Tables, 21, start)
	if err != nil {
		return 0, 0, fmt.Errorf("harness: %v", err)
	}
	defer ss.close()
	st := ss.run(attempt{l: l, pacing: c.E.Pacing, mutate: applyFault(l, Fault{Kind: c.Kind, At: c.At})})
	st.drainLib()
	if err := st.panicErr(); err != nil {
		return 0, 0, err
	}
	if !st.served {
		return 0, 0, fmt.Errorf("harness: not servable")
	}
	before := commitsIn(l, st.evIdx, c.At)
	if len(st.got) > before {
		extra := st.got[before]
		return before, len(exp), fmt.Errorf("the stream was cut (%s) in front of packet %d, after %d commit events, but %d transactions were delivered; the extra one has %d events and labels %+v..%+v: changes were handed over before their commit event was read",
			c.Kind, c.At, before, len(st.got), len(extra.Events), extra.NowPosition, extra.NextPosition)
	}
	if len(st.got) < before {
		return before, len(exp), fmt.Errorf("the stream was cut (%s) in front of packet %d, after %d commit events, but only %d transactions were delivered [stream err %v]", c.Kind, c.At, before, len(st.got), st.streamErr)
	}
	return before, len(exp), compareTxs(st.got, exp[:before], false)
}

// ParallelCase: several unit sequences streamed at the same time by separate
// streamers in one process.
type ParallelCase struct {
	Seqs     [][]int
	Variants []int
	Pacing   int
}

func checkParallel(c *ParallelCase) error {
	errs := make([]error, len(c.Seqs))
	var wg sync.WaitGroup
	for i := range c.Seqs {
		wg.Add(1)
		go func(i int) {
			defer wg.Done()
			errs[i] = checkSeq(SeqCase{Seq: c.Seqs[i], Variant: c.Variants[i], Pacing: 0})
		}(i)
	}
	wg.Wait()
	for i, err := range errs {
		if err != nil {
			return fmt.Errorf("stream %d of %d running in parallel: %v", i, len(c.Seqs), err)
		}
	}
	return nil
}

func checkSeq(c SeqCase) error {
	e := &E2ECase{H: seqHistory(c.Seq, c.Variant), Pacing: c.Pacing}
	_, _, err := checkBoundaries(e, true)
	return err
}

func init() {
	registerReplay("c02seq", func(raw json.RawMessage) error {
		var c SeqCase
		if err := json.Unmarshal(raw, &c); err != nil {
			return err
		}
		return checkSeq(c)
	})
	registerReplay("c02hist", func(raw json.RawMessage) error {
		var c E2ECase
		if err := json.Unmarshal(raw, &c); err != nil {
			return err
		}
		_, _, err := checkBoundaries(&c, false)
		return err
	})
	registerReplay("c02par", func(raw json.RawMessage) error {
		var c ParallelCase
		if err := json.Unmarshal(raw, &c); err != nil {
			return err
		}
		// a schedule-dependent failure may need several tries
		for i := 0; i < 20; i++ {
			if err := checkParallel(&c); err != nil {
				return err
			}
		}
		return nil
	})
	registerReplay("c02cut", func(raw json.RawMessage) error {
		var c CutCase
		if err := json.Unmarshal(raw, &c); err != nil {
			return err
		}
		_, _, err := checkCut(&c)
		return err
	})
	registerReplay("c02case", func(raw json.RawMessage) error {
		var w string
		if err := json.Unmarshal(raw, &w); err != nil {
			return err
		}
		return checkCasing(w)
	})
}

func checkCasing(w string) error {
	want := kindConst[strings.ToLower(w)]
	for _, sql := range []string{w, w + " ", w + " /* x */", w + " WORK"} {
		if got := gobinlog.GetStatementCategory(sql); got != want {
			return fmt.Errorf("GetStatementCategory(%q) = %v, want %v", sql, got, want)
		}
	}
	return nil
}

func nontrivialSeq(h *hist.History) bool {
	commits, other := 0, false
	first := -1
	for i, u := range h.Units {
		if u.Kind.Commits() {
			commits++
			if first < 0 {
				first = i
			}
		} else if first >= 0 {
			other = true
		}
	}
	// >= 2 commit points and >= 1 unit of another kind between/after the first
	return commits >= 2 && other
}

func TestC02(t *testing.T) {
	rec := recorder("C02")
	defer rec.Flush(t)

	// (1) all casings of the boundary keywords (shard 0)
	if envShard == 0 {
		n := int64(0)
		for _, w := range []string{"begin", "commit", "rollback"} {
			for mask := 0; mask < 1<<uint(len(w)); mask++ {
				b := []byte(w)
				for i := range b {
					if mask&(1<<uint(i)) != 0 {
						b[i] -= 'a' - 'A'
					}
				}
				n++
				if err := checkCasing(string(b)); err != nil {
					p := rec.Violation("c02case", string(b), "", err)
					t.Errorf("C02 violation: %v (replay %s)", err, p)
					break
				}
			}
		}
		rec.Enumerate(n, "keyword-casings")
		rec.MarkExhaustive("all 2^5 + 2^6 + 2^8 letter casings of begin / commit / rollback")
	}

	// (2) exhaustive unit sequences up to length N
	maxLen := 3
	if thorough() {
		maxLen = 4
	}
	idx := 0
	failed := 0
	for n := 1; n <= maxLen && failed == 0; n++ {
		total := 1
		for i := 0; i < n; i++ {
			total *= c02Alphabet
		}
		for code := 0; code < total && failed == 0; code++ {
			idx++
			if idx%envNShards != envShard {
				continue
			}
			seq := make([]int, n)
			x := code
			for i := range seq {
				seq[i] = x % c02Alphabet
				x /= c02Alphabet
			}
			c := SeqCase{Seq: seq, Variant: (idx / envNShards) % 16, Pacing: (idx / envNShards / 3) % 2}
			h := seqHistory(seq, c.Variant)
			cls := []string{fmt.Sprintf("seq-len-%d", n)}
			if c.Pacing == PaceLockStep {
				cls = append(cls, "lockstep")
			}
			rec.Case(nontrivialSeq(h), c, cls...)
			journal("C02", "c02seq", c)
			if err := checkSeq(c); err != nil {
				failed++
				p := rec.Violation("c02seq", c, "", err)
				names := []string{}
				for _, s := range seq {
					names = append(names, c02Names[s])
				}
				t.Errorf("C02 violation on sequence %v: %v (replay %s)", names, err, p)
			}
		}
	}
	rec.MarkExhaustive(fmt.Sprintf("all sequences of length <= %d over the %d-symbol unit alphabet %v", maxLen, c02Alphabet, c02Names))
	rec.Sample(SeqCase{Seq: []int{0, 7, 2}, Variant: 3, Pacing: 1})
	if failed > 0 {
		return
	}

	// (3) random longer histories with ignorable units also inside transactions
	o := gen.DefaultHistOpt(limits(), thorough())
	o.MaxUnits = 12
	o.MaxCols = 4
	o.MaxRows = 2
	o.MaxTables = 2
	o.BigBase = false
	o.Col = gen.ColumnOpt{Only: []byte{refenc.TLong, refenc.TVarchar, refenc.TTiny, refenc.TLongLong}, NoHeavy: true}
	rapidCheck(t, func(rt *rapid.T) {
		if rapid.IntRange(0, 2).Draw(rt, "part_cut") == 0 {
			// (4) the stream ends in front of a drawn packet, possibly inside a transaction
			fo := o
			fo.Scale = false
			c := &CutCase{E: E2ECase{H: gen.History(rt, fo), Pacing: rapid.IntRange(0, 1).Draw(rt, "pacing")}, Kind: rapid.SampledFrom([]string{"fin", "eof"}).Draw(rt, "cut_kind")}
			l, start, _, err := c.E.layout()
			if err != nil {
				rt.Skip(err.Error())
			}
			payloads, evIdx, _ := l.Served(start.File, start.Off)
			c.At = rapid.IntRange(0, len(payloads)).Draw(rt, "cut_at")
			// is the cut inside a transaction?
			inside := false
			if c.At > 0 && c.At <= len(evIdx) && evIdx[c.At-1] >= 0 {
				e := l.Events[evIdx[c.At-1]]
				inside = !e.Commit && c.E.H.Units[e.Unit].Kind.Commits()
			}
			cls := []string{"cut", "cut/" + c.Kind}
			if inside {
				cls = append(cls, "cut/inside-transaction")
			}
			journal("C02", "c02cut", c)
			before, total, err := checkCut(c)
			rec.Case(inside && before >= 1 && total >= 2, c, cls...)
			if err != nil {
				rec.Violation("c02cut", c, "", err)
				rt.Fatalf("C02 violation: %v", err)
			}
			return
		}
		switch rapid.IntRange(0, 7).Draw(rt, "part_special") {
		case 0:
			// (5) a unit is refused by the handler (or the stream is cut) and the SAME streamer tries again:
			// every change must then be delivered in exactly one accepted transaction, not twice inside one
			fo := o
			fo.Scale = false
			c := &FaultCase{H: gen.History(rt, fo)}
			e := E2ECase{H: c.H}
			l, start, su, err := e.layout()
			if err != nil {
				rt.Skip(err.Error())
			}
			payloads, _, _ := l.Served(start.File, start.Off)
			ntx := len(l.Expected(start, su))
			for i, n := 0, rapid.IntRange(1, 2).Draw(rt, "retries"); i < n; i++ {
				c.Attempts = append(c.Attempts, AttemptSpec{Fault: drawFault(rt, []string{"handler_err", "handler_err", "fin", "eof", "cancel_in"}, len(payloads)+1, ntx), Pacing: rapid.IntRange(0, 1).Draw(rt, "pacing")})
				if i > 0 && rapid.IntRange(0, 2).Draw(rt, "seek") == 0 {
					c.Attempts[i].Seek = rapid.IntRange(1, 4).Draw(rt, "seek_to")
				}
			}
			if rapid.IntRange(0, 2).Draw(rt, "seek_last") == 0 {
				// the caller repositions before the final, fault-free attempt
				c.FinalSeek = rapid.IntRange(1, 4).Draw(rt, "seek_last_to")
			}
			journal("C02", "c04", c)
			nt, err := checkC04(c)
			rec.Case(nt, c, "retry-on-same-streamer")
			if err != nil {
				rec.Violation("c04", c, "", err)
				rt.Fatalf("C02 violation: %v", err)
			}
			return
		case 1:
			// (6) several streamers parse in parallel in one process: grouping must not depend on it
			c := &ParallelCase{Pacing: rapid.IntRange(0, 1).Draw(rt, "pacing")}
			for i, n := 0, rapid.IntRange(2, 4).Draw(rt, "nstreams"); i < n; i++ {
				ln := rapid.IntRange(20, 120).Draw(rt, "par_len")
				seq := make([]int, ln)
				for j := range seq {
					seq[j] = rapid.SampledFrom([]int{0, 1, 2, 3, 4, 5, 6, 13}).Draw(rt, "par_sym")
				}
				c.Seqs = append(c.Seqs, seq)
				c.Variants = append(c.Variants, rapid.IntRange(0, 15).Draw(rt, "par_variant"))
			}
			rec.Case(true, c, "parallel-streamers")
			if err := checkParallel(c); err != nil {
				rec.Violation("c02par", c, "", err)
				rt.Fatalf("C02 violation: %v", err)
			}
			return
		}
		c := &E2ECase{H: gen.History(rt, o), Pacing: rapid.IntRange(0, 1).Draw(rt, "pacing")}
		if l, err := c.H.Lay(); err == nil && len(l.Events) > 300 {
			c.Pacing = PaceFarAhead
		}
		cls := []string{"random-history"}
		if c.Pacing == PaceLockStep {
			cls = append(cls, "random/lockstep")
		}
		inner := false
		for _, u := range c.H.Units {
			for _, it := range u.Items {
				inner = inner || it.Kind == hist.IUnknownEvent || it.Kind == hist.IUnknownStmt
			}
		}
		if inner {
			cls = append(cls, "ignorable-inside-tx")
		}
		nt := nontrivialSeq(c.H)
		rec.Case(nt, c, cls...)
		if nt {
			rec.Sample(c)
		}
		journal("C02", "c02hist", c)
		if _, _, err := checkBoundaries(c, false); err != nil {
			rec.Violation("c02hist", c, "", err)
			rt.Fatalf("C02 violation: %v", err)
		}
	})
}
