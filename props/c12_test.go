package props

import (
	"bytes"
	"fmt"
	"os"
	"testing"
	_ "time/tzdata"

	"github.com/Breeze0806/gobinlog/replication"
	"pgregory.net/rapid"

	"verif/gen"
	"verif/hist"
	"verif/refenc"
)

func TestC12(t *testing.T) {
	rec := recorder("C12")
	defer rec.Flush(t)
	rec.Class("process-zone/" + getenv("TZ", "(default)"))
	fail := func(c CellCase, err error) {
		p := cellViolation(rec, c, err)
		t.Errorf("C12 violation: %v (replay %s)", err, p)
	}

	// exhaustive: all 2^24 raw values of the 3-byte DATE and TIME encodings that denote valid values
	lo, hi := shardRange(1 << 24)
	buf := make([]byte, 5)
	var nDate, nTime int64
	dateFailed, timeFailed := false, false
	for raw := lo; raw < hi; raw++ {
		buf[1], buf[2], buf[3] = byte(raw), byte(raw>>8), byte(raw>>16)
		d, m, y := int(raw&31), int(raw>>5&15), int(raw>>9)
		if !dateFailed && m <= 12 && y <= 9999 {
			nDate++
			want := fmt.Sprintf("%04d-%02d-%02d", y, m, d)
			var out []byte
			var n int
			err := guard(func() (e error) { out, n, e = replication.CellBytes(buf, 1, refenc.TDate, 0, false); return })
			if err != nil || n != 3 || !bytes.Equal(out, []byte(want)) {
				dateFailed = true
				fail(CellCase{Col: hist.Column{Type: refenc.TDate}, Val: hist.Value{Y: y, Mo: m, D: d}, Pre: 1, Post: 1},
					fmt.Errorf("DATE raw %#x: got %q len %d err %v, want %q", raw, out, n, err, want))
			}
		}
		v := int64(raw)
		if raw&0x800000 != 0 {
			v -= 1 << 24
		}
		neg := v < 0
		a := v
		if neg {
			a = -v
		}
		h, mi, s := int(a/10000), int(a/100%100), int(a%100)
		if !timeFailed && h <= 838 && mi <= 59 && s <= 59 {
			nTime++
			want := hist.TimeText(neg, h, mi, s)
			var out []byte
			var n int
			err := guard(func() (e error) { out, n, e = replication.CellBytes(buf, 1, refenc.TTime, 0, false); return })
			if err != nil || n != 3 || !bytes.Equal(out, []byte(want)) {
				timeFailed = true
				fail(CellCase{Col: hist.Column{Type: refenc.TTime}, Val: hist.Value{Neg: neg, H: h, Mi: mi, S: s}, Pre: 1, Post: 1},
					fmt.Errorf("TIME raw %#x: got %q len %d err %v, want %q", raw, out, n, err, want))
			}
		}
	}
	rec.Enumerate(nDate, "date-old/valid-raw")
	rec.Enumerate(nTime, "time-old/valid-raw")
	rec.MarkExhaustive("all 2^24 raw values of the 3-byte DATE and TIME encodings (those denoting valid values are checked)")
	rec.Sample(map[string]interface{}{"sweep": "TIME old", "raw": "0xffec78 (-5000)", "expect": "-00:50:00"})
	if dateFailed || timeFailed {
		return
	}

	kinds := []byte{refenc.TDate, refenc.TNewDate, refenc.TTime, refenc.TDateTime, refenc.TTimestamp, refenc.TTimestamp2, refenc.TDateTime2, refenc.TTime2}
	kindPairs := make([]struct{ T, Real byte }, 0, len(kinds))
	for _, k := range kinds {
		kindPairs = append(kindPairs, struct{ T, Real byte }{k, 0})
	}
	transitions := zoneTransitions()
	rec.Note("zone %s: %d offset transitions between 1970 and 2038", getenv("TZ", "(default)"), len(transitions))
	rapidCheck(t, func(rt *rapid.T) {
		switch rapid.IntRange(0, 24).Draw(rt, "part_special") {
		case 0:
			parallelPart(rt, rec, "C12", kindPairs)
			return
		case 1:
			reannouncePart(rt, rec, "C12")
			return
		case 2, 3, 4:
			// a run of TIMESTAMP cells decoded one after the other around an offset transition of the
			// process zone (a decoder that caches "the current local day" goes wrong after the change)
			if len(transitions) == 0 {
				break
			}
			tr := rapid.SampledFrom(transitions).Draw(rt, "transition")
			n := rapid.IntRange(2, 8).Draw(rt, "run_len")
			col := hist.Column{Type: refenc.TTimestamp}
			if rapid.Bool().Draw(rt, "run_ts2") {
				col = hist.Column{Type: refenc.TTimestamp2, Fsp: rapid.IntRange(0, 6).Draw(rt, "run_fsp")}
			}
			t0 := tr - int64(rapid.IntRange(0, 20*3600).Draw(rt, "run_before"))
			var run []CellCase
			for i := 0; i < n; i++ {
				t0 += int64(rapid.IntRange(0, 6*3600).Draw(rt, "run_step"))
				if t0 < 1 || t0 > 1<<32-1 {
					continue
				}
				run = append(run, CellCase{Col: col, Val: hist.Value{U: uint64(t0)}, Pre: 1, Post: 1})
			}
			rec.Case(true, struct {
				Run []CellCase
				TZ  string
			}{run, os.Getenv("TZ")}, "timestamp-run-around-transition")
			for _, c := range run {
				if err := checkCell(c); err != nil {
					cellViolation(rec, c, err)
					rt.Fatalf("C12 violation (TZ=%s, run of %d timestamps around the zone transition at %d): %v", os.Getenv("TZ"), len(run), tr, err)
				}
			}
			return
		}
		k := rapid.SampledFrom(kinds).Draw(rt, "kind")
		col := gen.ColumnOf(rt, k, 0, gen.ColumnOpt{Extra: true})
		c := CellCase{Col: col, Val: gen.ValueOf(rt, col, limits()), Pre: rapid.IntRange(0, 4).Draw(rt, "pre"), Post: rapid.IntRange(0, 4).Draw(rt, "post")}
		cls := fmt.Sprintf("%s/fsp%d", typeName(col.Type, 0), col.Fsp)
		if c.Val.Neg {
			cls += "/neg"
		}
		if (k == refenc.TTimestamp || k == refenc.TTimestamp2) && c.Val.U == 0 {
			cls += "/zero"
		}
		rec.Case(true, struct {
			C  CellCase
			TZ string
		}{c, os.Getenv("TZ")}, cls)
		rec.Sample(c)
		if err := checkCell(c); err != nil {
			cellViolation(rec, c, err)
			rt.Fatalf("C12 violation (TZ=%s): %v", os.Getenv("TZ"), err)
		}
	})
}

// FuzzC12 is the native coverage-guided supplement of the generated part (thorough tier only).
func FuzzC12(f *testing.F) { fuzzProperty(f, TestC12) }
