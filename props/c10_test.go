package props

import (
	"bytes"
	"fmt"
	"math"
	"strconv"
	"testing"

	"github.com/Breeze0806/gobinlog/replication"
	"pgregory.net/rapid"

	"verif/gen"
	"verif/hist"
	"verif/refenc"
)

// sweepInts enumerates raw values [lo,hi) of a w-byte integer column in one
// signedness mode against the arithmetic reading.  Returns the first failure.
func sweepInts(typ byte, w int, unsigned bool, lo, hi uint64) (uint64, error) {
	buf := make([]byte, 8+2)
	var scratch [24]byte
	bits := uint(8 * w)
	cur := lo
	err := guard(func() error {
		for v := lo; v < hi; v++ {
			cur = v
			for i := 0; i < w; i++ {
				buf[1+i] = byte(v >> (8 * uint(i)))
			}
			out, n, err := replication.CellBytes(buf, 1, typ, 0, unsigned)
			var want []byte
			if unsigned || v&(1<<(bits-1)) == 0 {
				want = strconv.AppendUint(scratch[:0], v, 10)
			} else {
				want = strconv.AppendInt(scratch[:0], int64(v)-int64(1)<<bits, 10)
			}
			if err != nil || n != w || !bytes.Equal(out, want) {
				return fmt.Errorf("raw %#x unsigned=%v: got %q len %d err %v, want %q len %d", v, unsigned, out, n, err, want, w)
			}
		}
		return nil
	})
	return cur, err
}

func TestC10(t *testing.T) {
	rec := recorder("C10")
	defer rec.Flush(t)

	fail := func(c CellCase, err error) {
		p := cellViolation(rec, c, err)
		t.Errorf("C10 violation: %v (replay %s)", err, p)
	}

	// 1. exhaustive integer domains
	type dom struct {
		typ byte
		w   int
	}
	doms := []dom{{refenc.TTiny, 1}, {refenc.TShort, 2}, {refenc.TInt24, 3}}
	if thorough() {
		doms = append(doms, dom{refenc.TLong, 4})
	}
	for _, d := range doms {
		for _, uns := range []bool{false, true} {
			lo, hi := shardRange(uint64(1) << uint(8*d.w))
			at, err := sweepInts(d.typ, d.w, uns, lo, hi)
			rec.Enumerate(int64(hi-lo), fmt.Sprintf("int%d/unsigned=%v", 8*d.w, uns))
			if err != nil {
				fail(CellCase{Col: hist.Column{Type: d.typ}, Val: hist.Value{U: at}, Unsigned: uns, Pre: 1, Post: 1}, err)
			}
		}
		rec.MarkExhaustive(fmt.Sprintf("all 2^%d raw values of the %d-bit integer type, signed and unsigned", 8*d.w, 8*d.w))
	}
	rec.Sample(map[string]interface{}{"sweep": "int24 signed", "raw": "0x800000", "expect": "-8388608"})

	// 2. YEAR: all 256 bytes (shard 0)
	if envShard == 0 {
		for y := 0; y < 256; y++ {
			c := CellCase{Col: hist.Column{Type: refenc.TYear}, Val: hist.Value{U: uint64(y)}, Pre: y % 3, Post: 1}
			if err := checkCell(c); err != nil {
				fail(c, err)
				break
			}
		}
		rec.Enumerate(256, "year")
		rec.MarkExhaustive("all 256 YEAR bytes")

		// 64-bit and 32-bit boundaries, both signedness modes
		var bnd []uint64
		for _, k := range []uint{0, 7, 8, 15, 16, 23, 24, 31, 32, 39, 40, 47, 48, 55, 56, 62, 63} {
			b := uint64(1) << k
			bnd = append(bnd, b-1, b, b+1, ^b, ^(b - 1), -b)
		}
		for _, typ := range []byte{refenc.TLong, refenc.TLongLong} {
			for _, v := range bnd {
				for _, uns := range []bool{false, true} {
					c := CellCase{Col: hist.Column{Type: typ}, Val: hist.Value{U: v}, Unsigned: uns, Pre: 2, Post: 3}
					rec.Case(true, c, "int-boundary")
					if err := checkCell(c); err != nil {
						fail(c, err)
					}
				}
			}
		}
	}

	// 3. random 64-bit / 32-bit values, floats, BIT, ENUM, SET
	kinds := []struct{ T, Real byte }{
		{refenc.TLongLong, 0}, {refenc.TLong, 0}, {refenc.TFloat, 0}, {refenc.TDouble, 0}, {refenc.TBit, 0},
		{refenc.TString, refenc.TEnum}, {refenc.TString, refenc.TSet}, {refenc.TEnum, 0}, {refenc.TSet, 0},
		{refenc.TTiny, 0}, {refenc.TShort, 0}, {refenc.TInt24, 0}, {refenc.TYear, 0},
	}
	rapidCheck(t, func(rt *rapid.T) {
		switch rapid.IntRange(0, 19).Draw(rt, "part_e2e2") {
		case 2:
			parallelPart(rt, rec, "C10", kinds)
			return
		case 0:
			// end to end: a table id announced again with other column types must be decoded with the new ones
			c := drawRebind(rt, rapid.SampledFrom([]int{0, 1, 1}).Draw(rt, "rebind_mode")) // re-announced / re-bound (also to a name that differs only in case)
			rec.Case(true, c, "e2e/re-announced-table-map")
			journal("C10", "c15rebind", c)
			if err := checkRebind(c); err != nil {
				rec.Violation("c15rebind", c, "", err)
				rt.Fatalf("C10 violation: %v", err)
			}
			return
		case 1:
			// end to end: histories over this property's types, compared AFTER the stream ended
			c := drawE2E(rt, c10HistOpt())
			rec.Case(true, c, "e2e/history")
			journal("C10", "c01", c)
			if err := checkC01(c); err != nil {
				rec.Violation("c01", c, "", err)
				rt.Fatalf("C10 violation: %v", err)
			}
			return
		}
		if rapid.IntRange(0, 9).Draw(rt, "part_e2e") == 0 {
			// end to end: signedness follows what the table mapper says NOW, also after an ALTER TABLE that
			// brings the table back under a new id with other signedness (shared with C15's scenario)
			c := drawRebind(rt, 3)
			rec.Case(true, c, "e2e/signedness-after-alter")
			journal("C10", "c15rebind", c)
			if err := checkRebind(c); err != nil {
				rec.Violation("c15rebind", c, "", err)
				rt.Fatalf("C10 violation: %v", err)
			}
			return
		}
		k := rapid.SampledFrom(kinds).Draw(rt, "kind")
		col := gen.ColumnOf(rt, k.T, k.Real, gen.ColumnOpt{Extra: true})
		c := CellCase{Col: col, Val: gen.ValueOf(rt, col, limits()), Unsigned: rapid.Bool().Draw(rt, "mapper_unsigned"),
			Pre: rapid.IntRange(0, 5).Draw(rt, "pre"), Post: rapid.IntRange(0, 5).Draw(rt, "post")}
		cls := typeName(col.Type, col.Real)
		if col.Type == refenc.TFloat || col.Type == refenc.TDouble {
			cls += "/" + floatClass(col.Type, c.Val.U)
		}
		rec.Case(true, c, cls)
		rec.Sample(c)
		if err := checkCell(c); err != nil {
			cellViolation(rec, c, err)
			rt.Fatalf("C10 violation: %v", err)
		}
	})
}

func floatClass(typ byte, bits uint64) string {
	var f float64
	var sub bool
	if typ == refenc.TFloat {
		f = float64(math.Float32frombits(uint32(bits)))
		sub = bits&0x7f800000 == 0 && bits&0x007fffff != 0
	} else {
		f = math.Float64frombits(bits)
		sub = bits&0x7ff0000000000000 == 0 && bits&0x000fffffffffffff != 0
	}
	switch {
	case f == 0:
		return "zero"
	case sub:
		return "subnormal"
	case math.Abs(f) >= 1e21 || math.Abs(f) < 1e-6:
		return "exponent-range"
	default:
		return "plain-range"
	}
}

func c10HistOpt() gen.HistOpt {
	o := gen.DefaultHistOpt(limits(), false)
	o.MaxUnits, o.MaxTables, o.MaxCols = 8, 2, 8
	o.BigBase = false
	o.Scale = false
	o.Col = gen.ColumnOpt{Only: []byte{refenc.TTiny, refenc.TShort, refenc.TInt24, refenc.TLong, refenc.TLongLong, refenc.TFloat, refenc.TDouble, refenc.TYear, refenc.TBit, refenc.TString}, NoHeavy: true}
	return o
}

// FuzzC10 is the native coverage-guided supplement of the generated part (thorough tier only).
func FuzzC10(f *testing.F) { fuzzProperty(f, TestC10) }
