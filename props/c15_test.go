package props

import (
	"encoding/json"
	"fmt"
	"testing"

	"github.com/Breeze0806/gobinlog"
	"github.com/Breeze0806/gobinlog/replication"
	"pgregory.net/rapid"

	"verif/gen"
	"verif/hist"
	"verif/refenc"
)

// TableMapCase is C15(a): one table map event decoded directly.
type TableMapCase struct {
	Cfg      hist.Cfg
	Table    hist.Table
	Flags    uint16
	Optional [][]byte // raw optional-metadata TLVs appended after the NULL bitmap
}

func checkTableMap(c *TableMapCase) error {
	h := &hist.History{Cfg: c.Cfg, Tables: []hist.Table{c.Table}}
	f := libFormat(c.Cfg)
	var opt []byte
	for _, o := range c.Optional {
		opt = append(opt, o...)
	}
	body := h.TableMapBody(&h.Tables[0], opt)
	// the harness encoder writes flags=1; patch the drawn flags in (they follow the table id)
	body[c.Cfg.TableIDBytes] = byte(c.Flags)
	body[c.Cfg.TableIDBytes+1] = byte(c.Flags >> 8)
	ev, err := stripped(refenc.BuildEvent(refenc.Header{Timestamp: 9, Type: refenc.EvTableMap, ServerID: 3, LogPos: 77}, body, c.Cfg.Checksum), f)
	if err != nil {
		return err
	}
	if !ev.IsTableMap() {
		return fmt.Errorf("IsTableMap() = false")
	}
	var tm *replication.TableMap
	if err := guard(func() (e error) { tm, e = ev.TableMap(f); return }); err != nil {
		return fmt.Errorf("TableMap failed on a well-formed event (%d columns, %d optional-metadata bytes): %v", len(c.Table.Cols), len(opt), err)
	}
	if id := ev.TableID(f); id != c.Table.ID {
		return fmt.Errorf("TableID = %d, want %d", id, c.Table.ID)
	}
	if tm.Flags != c.Flags {
		return fmt.Errorf("flags %#x, want %#x", tm.Flags, c.Flags)
	}
	if tm.Database != c.Table.DB || tm.Name != c.Table.Name {
		return fmt.Errorf("names %q.%q, want %q.%q", tm.Database, tm.Name, c.Table.DB, c.Table.Name)
	}
	n := len(c.Table.Cols)
	if len(tm.Types) != n || len(tm.Metadata) != n || tm.CanBeNull.Count() != n {
		return fmt.Errorf("column count: %d types, %d metadata, %d nullability bits; the table has %d columns", len(tm.Types), len(tm.Metadata), tm.CanBeNull.Count(), n)
	}
	for i, col := range c.Table.Cols {
		if tm.Types[i] != col.Type {
			return fmt.Errorf("column %d: type %d, want %d", i, tm.Types[i], col.Type)
		}
		if tm.Metadata[i] != col.LibMeta() {
			return fmt.Errorf("column %d (type %d): metadata %#x, want %#x", i, col.Type, tm.Metadata[i], col.LibMeta())
		}
		if tm.CanBeNull.Bit(i) != col.Nullable {
			return fmt.Errorf("column %d: nullable %v, want %v", i, tm.CanBeNull.Bit(i), col.Nullable)
		}
	}
	return nil
}

// RebindCase is C15(b): hand-shaped attribution scenarios on top of a table set.
//
//	Mode 0: one table id re-announced with changed column types (same name, same column count)
//	Mode 1: one table id re-bound to a different table
//	Mode 2: the mapper reports a wrong column count for one table
//	Mode 4: the same id and name announced again with ANOTHER column count while the mapper still describes the
//	        old table: the rows of the new layout must be rejected with an error, not mis-attributed
//	Mode 5: the same id and name announced again with identical column types but changed metadata only
//	Mode 3: ALTER TABLE between two transactions: the table comes back under a NEW id with the same name and
//	        column count but other signedness / column names; the mapper answers with the old definition until
//	        the DDL transaction has been delivered and with the new one afterwards
type RebindCase struct {
	Cfg     hist.Cfg
	A, B    hist.Table // Mode 0/1: B shares A's id
	Mode    int
	SameTx  bool // second announcement inside the same transaction
	Delta   int  // Mode 2
	RowsA   hist.RowsEv
	RowsB   hist.RowsEv
	Between int // other commit units between the two announcements
}

func (c *RebindCase) history() *hist.History {
	h := &hist.History{Cfg: c.Cfg, FirstFile: "bin.000007"}
	a, b := c.A, c.B
	if c.Mode == 0 || c.Mode == 1 || c.Mode == 4 || c.Mode == 5 {
		b.ID = a.ID
	} else if b.ID == a.ID {
		b.ID = a.ID + 1
	}
	h.Tables = []hist.Table{a, b}
	ra, rb := c.RowsA, c.RowsB
	ra.Table, rb.Table = 0, 1
	ra.TS, rb.TS = 10, 20
	q := func(sql string, ts uint32) *hist.Query { return &hist.Query{DB: "d", SQL: sql, TS: ts} }
	itemA := hist.Item{Kind: hist.IRows, Maps: []int{0}, Rows: []hist.RowsEv{ra}, TS: 10}
	itemB := hist.Item{Kind: hist.IRows, Maps: []int{1}, Rows: []hist.RowsEv{rb}, TS: 20}
	if c.SameTx {
		h.Units = []hist.Unit{{Kind: hist.UTxXID, Begin: q("BEGIN", 9), Items: []hist.Item{itemA, itemB}, XID: 1, TS: 21}}
	} else {
		h.Units = []hist.Unit{{Kind: hist.UTxXID, Begin: q("BEGIN", 9), Items: []hist.Item{itemA}, XID: 1, TS: 11}}
		for i := 0; i < c.Between; i++ {
			h.Units = append(h.Units, hist.Unit{Kind: hist.UDDL, Q: q(fmt.Sprintf("ALTER TABLE x%d ADD c int", i), 12)})
		}
		h.Units = append(h.Units, hist.Unit{Kind: hist.UTxCommit, Begin: q("BEGIN", 19), Items: []hist.Item{itemB}, End: q("COMMIT", 21)})
	}
	h.Base = h.MinBase()
	return h
}

func checkRebind(c *RebindCase) error {
	h := c.history()
	e := &E2ECase{H: h}
	if c.Mode == 4 {
		l, start, su, err := e.layout()
		if err != nil {
			return fmt.Errorf("harness: %v", err)
		}
		exp := l.Expected(start, su)
		ss, err := newSession(h.Tables, 15, start)
		if err != nil {
			return fmt.Errorf("harness: %v", err)
		}
		defer ss.close()
		ss.mp.tables[h.Tables[0].DB+"\x00"+h.Tables[0].Name] = &h.Tables[0] // the mapper keeps describing the old table
		st := ss.run(attempt{l: l})
		st.drainLib()
		if st.panicked != "" {
			return fmt.Errorf("a table map whose column count (%d) disagrees with the mapper's table (%d) must be rejected with an error: %v", len(h.Tables[1].Cols), len(h.Tables[0].Cols), st.streamErr)
		}
		if st.streamErr == nil {
			return fmt.Errorf("the table was announced again with %d columns while the mapper describes %d, rows followed, and Stream returned nil", len(h.Tables[1].Cols), len(h.Tables[0].Cols))
		}
		// nothing of the transaction that carries the new layout may be delivered
		bad := len(exp) - 1
		if len(st.got) > bad {
			return fmt.Errorf("%d transactions delivered; transaction %d carries rows in a layout the mapper does not describe", len(st.got), bad)
		}
		return compareTxs(st.got, exp[:len(st.got)], true)
	}
	if c.Mode == 3 {
		l, start, su, err := e.layout()
		if err != nil {
			return fmt.Errorf("harness: %v", err)
		}
		exp := l.Expected(start, su)
		ss, err := newSession(h.Tables, 15, start)
		if err != nil {
			return fmt.Errorf("harness: %v", err)
		}
		defer ss.close()
		altered := false
		key := h.Tables[0].DB + "\x00" + h.Tables[0].Name
		ss.mp.tables[key] = &h.Tables[0]
		handler := func(tx *gobinlog.Transaction, st *attemptState) error {
			for _, ev := range tx.Events {
				if ev.Type == gobinlog.StatementAlter && !altered {
					altered = true
					ss.mp.mu.Lock()
					ss.mp.tables[key] = &h.Tables[1] // from now on the mapper describes the altered table
					ss.mp.mu.Unlock()
				}
			}
			return nil
		}
		st := ss.run(attempt{l: l, handler: handler})
		st.drainLib()
		if err := st.panicErr(); err != nil {
			return err
		}
		if err := compareTxs(st.got, exp, true); err != nil {
			return fmt.Errorf("%v [stream err: %v]", err, st.streamErr)
		}
		return nil
	}
	if c.Mode != 2 {
		st, exp, _, err := runE2E(e)
		if err != nil {
			return err
		}
		if err := compareTxs(st.got, exp, true); err != nil {
			return fmt.Errorf("%v [stream err: %v]", err, st.streamErr)
		}
		return nil
	}
	// Mode 2: the mapper always reports a wrong column count for table B
	l, start, su, err := e.layout()
	if err != nil {
		return fmt.Errorf("harness: %v", err)
	}
	exp := l.Expected(start, su)
	ss, err := newSession(h.Tables, 15, start)
	if err != nil {
		return fmt.Errorf("harness: %v", err)
	}
	defer ss.close()
	bKey := h.Tables[1].DB + "\x00" + h.Tables[1].Name
	wrong := hist.Table{DB: h.Tables[1].DB, Name: h.Tables[1].Name, Cols: append([]hist.Column{}, h.Tables[1].Cols...)}
	if c.Delta > 0 {
		for i := 0; i < c.Delta; i++ {
			wrong.Cols = append(wrong.Cols, hist.Column{Name: fmt.Sprintf("x%d", i)})
		}
	} else if -c.Delta < len(wrong.Cols) {
		wrong.Cols = wrong.Cols[:len(wrong.Cols)+c.Delta]
	} else {
		wrong.Cols = nil
	}
	ss.mp.tables[bKey] = &wrong
	st := ss.run(attempt{l: l})
	st.drainLib()
	if err := st.panicErr(); err != nil {
		return err
	}
	if st.streamErr == nil {
		return fmt.Errorf("the mapper reports %d columns for a table map with %d columns and Stream returned nil", len(wrong.Cols), len(h.Tables[1].Cols))
	}
	// everything committed before the mismatching table map may be delivered, nothing from it on
	firstBad := len(exp)
	for k, tx := range exp {
		for _, ev := range tx.Events {
			if !ev.IsQuery && ev.DB == h.Tables[1].DB && ev.Table == h.Tables[1].Name && k < firstBad {
				firstBad = k
			}
		}
	}
	if len(st.got) > firstBad {
		return fmt.Errorf("%d transactions delivered; transaction %d carries rows of the mismatching table and must not be", len(st.got), firstBad)
	}
	return compareTxs(st.got, exp[:len(st.got)], true)
}

func init() {
	registerReplay("c15map", func(raw json.RawMessage) error {
		var c TableMapCase
		if err := json.Unmarshal(raw, &c); err != nil {
			return err
		}
		return checkTableMap(&c)
	})
	registerReplay("c15rebind", func(raw json.RawMessage) error {
		var c RebindCase
		if err := json.Unmarshal(raw, &c); err != nil {
			return err
		}
		return checkRebind(&c)
	})
	registerReplay("c15e2e", func(raw json.RawMessage) error {
		var c E2ECase
		if err := json.Unmarshal(raw, &c); err != nil {
			return err
		}
		return checkAttribution(&c)
	})
}

// checkAttribution streams a multi-table history and additionally checks that
// every mapper call names a table that was announced.
func checkAttribution(c *E2ECase) error {
	l, start, su, err := c.layout()
	if err != nil {
		return fmt.Errorf("harness: %v", err)
	}
	exp := l.Expected(start, su)
	ss, err := newSession(c.H.Tables, 16, start)
	if err != nil {
		return fmt.Errorf("harness: %v", err)
	}
	defer ss.close()
	st := ss.run(attempt{l: l, pacing: c.Pacing})
	st.drainLib()
	if err := st.panicErr(); err != nil {
		return err
	}
	if err := compareTxs(st.got, exp, true); err != nil {
		return fmt.Errorf("%v [stream err: %v]", err, st.streamErr)
	}
	announced := map[string]bool{}
	for ui := su; ui < len(c.H.Units); ui++ {
		for _, it := range c.H.Units[ui].Items {
			for _, ti := range it.Maps {
				announced[c.H.Tables[ti].DB+"\x00"+c.H.Tables[ti].Name] = true
			}
		}
	}
	for _, call := range ss.mp.Calls() {
		if !announced[call.DbName+"\x00"+call.TableName] {
			return fmt.Errorf("the mapper was asked for %q.%q, which no table map announced", call.DbName, call.TableName)
		}
	}
	return nil
}

// drawRebind draws an attribution scenario of the given mode.
func drawRebind(rt *rapid.T, mode int) *RebindCase {
	c := &RebindCase{Cfg: gen.Config(rt), Mode: mode, SameTx: rapid.Bool().Draw(rt, "same_tx"), Between: rapid.IntRange(0, 2).Draw(rt, "between")}
	c.Cfg.NHeaderSizes = 40
	copt := gen.ColumnOpt{NoHeavy: true, NoJSON: true}
	c.A = wideTable(rt, 8, copt, c.Cfg.TableIDBytes)
	c.A.DB, c.A.Name = "d", "t1"
	switch c.Mode {
	case 0: // same table, same column count, other types
		c.B = hist.Table{DB: "d", Name: "t1"}
		for i := range c.A.Cols {
			c.A.Cols[i].Unsigned = false
			col := gen.Column(rt, copt)
			col.Name, col.Unsigned = c.A.Cols[i].Name, false
			c.B.Cols = append(c.B.Cols, col)
		}
	case 1:
		c.B = wideTable(rt, 8, copt, c.Cfg.TableIDBytes)
		c.B.DB, c.B.Name = "d", "t2"
		if rapid.Bool().Draw(rt, "case_only") {
			c.B.Name = "T1" // differs from "t1" only in case: still another table on a case-sensitive master
		}
		for i := range c.B.Cols {
			c.B.Cols[i].Name = fmt.Sprintf("other%d", i)
		}
	case 4: // same id, same name, other column count
		c.B = wideTable(rt, 8, copt, c.Cfg.TableIDBytes)
		c.B.DB, c.B.Name = "d", "t1"
		for len(c.B.Cols) == len(c.A.Cols) {
			c.B.Cols = append(c.B.Cols, gen.Column(rt, copt))
		}
		for i := range c.B.Cols {
			c.B.Cols[i].Name = fmt.Sprintf("n%d", i)
		}
	case 5: // same id, same name, same types: only the metadata changes
		c.B = hist.Table{DB: "d", Name: "t1"}
		for i := range c.A.Cols {
			c.A.Cols[i].Unsigned = false
			col := gen.ColumnOf(rt, c.A.Cols[i].Type, c.A.Cols[i].Real, copt)
			col.Name, col.Unsigned = c.A.Cols[i].Name, false
			c.B.Cols = append(c.B.Cols, col)
		}
	case 3: // ALTER: same name and column count, new id, integer columns flip their signedness, names change
		c.SameTx, c.Between = false, 1
		iopt := gen.ColumnOpt{Only: []byte{refenc.TTiny, refenc.TShort, refenc.TInt24, refenc.TLong, refenc.TLongLong, refenc.TVarchar}, NoHeavy: true}
		c.A = wideTable(rt, 6, iopt, c.Cfg.TableIDBytes)
		c.A.DB, c.A.Name = "d", "t1"
		c.B = hist.Table{DB: "d", Name: "t1", ID: c.A.ID + 1}
		for i, col := range c.A.Cols {
			nb := col
			nb.Unsigned = !col.Unsigned || rapid.Bool().Draw(rt, "keep_unsigned")
			if rapid.Bool().Draw(rt, "flip") {
				nb.Unsigned = !col.Unsigned
			}
			if rapid.Bool().Draw(rt, "rename") {
				nb.Name = fmt.Sprintf("renamed%d", i)
			}
			c.B.Cols = append(c.B.Cols, nb)
		}
	default:
		c.B = wideTable(rt, 8, copt, c.Cfg.TableIDBytes)
		c.B.DB, c.B.Name = "d", "t2"
		c.B.ID = c.A.ID + 1
		c.Delta = rapid.SampledFrom([]int{-1, 1, 2, -100}).Draw(rt, "delta")
	}
	ho := gen.HistOpt{MaxRows: 2, Lim: limits()}
	c.RowsA = gen.RowsEvent(rt, []hist.Table{c.A}, 0, gen.NewClock(), ho)
	c.RowsB = gen.RowsEvent(rt, []hist.Table{c.B}, 0, gen.NewClock(), ho)
	if c.Mode == 4 && len(c.RowsB.Rows) == 0 {
		// an event without rows attributes nothing: the mismatch only has to be reported when rows follow
		ho1 := ho
		ho1.MaxRows = 1
		for len(c.RowsB.Rows) == 0 {
			c.RowsB = gen.RowsEvent(rt, []hist.Table{c.B}, 0, gen.NewClock(), ho1)
		}
	}
	return c
}

func TestC15(t *testing.T) {
	rec := recorder("C15")
	defer rec.Flush(t)
	o := gen.DefaultHistOpt(limits(), thorough())
	o.MaxTables = 5
	o.MaxCols = 6
	o.MaxUnits = 6
	o.BigBase = false
	o.Scale = false
	o.ManyTables = 60
	o.Col = gen.ColumnOpt{NoHeavy: true, NoJSON: true}
	rapidCheck(t, func(rt *rapid.T) {
		switch rapid.IntRange(0, 2).Draw(rt, "part") {
		case 0: // (a) direct table-map decoding
			c := &TableMapCase{Cfg: gen.Config(rt)}
			c.Cfg.NHeaderSizes = rapid.IntRange(35, 60).Draw(rt, "nsizes")
			c.Table = wideTable(rt, 600, gen.ColumnOpt{Extra: true}, c.Cfg.TableIDBytes)
			if rapid.IntRange(0, 9).Draw(rt, "very_wide") == 0 {
				for len(c.Table.Cols) < rapid.IntRange(301, 600).Draw(rt, "ncols600") {
					col := gen.Column(rt, gen.ColumnOpt{Extra: true})
					c.Table.Cols = append(c.Table.Cols, col)
				}
			}
			c.Table.DB = gen.Name(rt, "db", 255)
			c.Table.Name = gen.Name(rt, "tbl", 255)
			c.Flags = uint16(rapid.IntRange(0, 65535).Draw(rt, "flags"))
			longTLV := false
			for i := rapid.IntRange(0, 3).Draw(rt, "ntlv"); i > 0; i-- {
				val := rapid.SliceOfN(rapid.Byte(), 0, 300).Draw(rt, "tlv_val")
				if rapid.Bool().Draw(rt, "tlv_len_edge") {
					// field lengths are packed integers: one byte up to 250, then 0xfc + 2 bytes, then 0xfd + 3 bytes
					// (column names of a wide table under binlog_row_metadata=FULL are longer than 250 bytes)
					n := rapid.SampledFrom([]int{0, 1, 250, 251, 252, 1000, 65535, 65536, 70000}).Draw(rt, "tlv_len")
					val = refenc.Blob{K: 3, S: rapid.Uint32().Draw(rt, "tlv_seed"), N: n}.Bytes()
				}
				c.Optional = append(c.Optional, refenc.OptionalTLV(byte(rapid.IntRange(1, 12).Draw(rt, "tlv_type")), val))
				if len(val) >= 251 {
					longTLV = true
				}
			}
			metaLen := 0
			for _, col := range c.Table.Cols {
				metaLen += len(col.MetaBytes())
			}
			cls := []string{"tablemap", fmt.Sprintf("tablemap/idBytes=%d", c.Cfg.TableIDBytes)}
			if len(c.Table.Cols) >= 251 {
				cls = append(cls, "tablemap/cols>=251")
			}
			if metaLen >= 251 {
				cls = append(cls, "tablemap/metadata>=251B")
			}
			if len(c.Optional) > 0 {
				cls = append(cls, "tablemap/optional-metadata")
			}
			if longTLV {
				cls = append(cls, "tablemap/optional-metadata-field>=251B")
			}
			rec.Case(true, c, cls...)
			if len(c.Table.Cols) < 12 {
				rec.Sample(c)
			}
			if err := checkTableMap(c); err != nil {
				rec.Violation("c15map", c, "", err)
				rt.Fatalf("C15 violation: %v", err)
			}
		case 1: // (b) re-announcement / re-binding / count mismatch
			c := drawRebind(rt, rapid.IntRange(0, 5).Draw(rt, "mode"))
			rec.Case(true, c, fmt.Sprintf("rebind/mode=%d", c.Mode), fmt.Sprintf("rebind/sameTx=%v", c.SameTx))
			rec.Sample(c)
			journal("C15", "c15rebind", c)
			if err := checkRebind(c); err != nil {
				rec.Violation("c15rebind", c, "", err)
				rt.Fatalf("C15 violation: %v", err)
			}
		default: // (b) generated multi-table histories: interleaved and re-announced maps
			c := drawE2E(rt, o)
			maps := 0
			for _, u := range c.H.Units {
				for _, it := range u.Items {
					maps += len(it.Maps)
				}
			}
			tcl := fmt.Sprintf("e2e/tables=%d", len(c.H.Tables))
			if len(c.H.Tables) > 100 {
				tcl = "e2e/tables>100"
			}
			if len(c.H.Tables) > 1024 {
				tcl = "e2e/tables>1024"
			}
			rec.Case(maps >= 2, c, "e2e", tcl)
			journal("C15", "c15e2e", c)
			if err := checkAttribution(c); err != nil {
				rec.Violation("c15e2e", c, "", err)
				rt.Fatalf("C15 violation: %v", err)
			}
		}
	})
}

// FuzzC15 is the native coverage-guided supplement of the generated part (thorough tier only).
func FuzzC15(f *testing.F) { fuzzProperty(f, TestC15) }
