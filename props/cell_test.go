package props

import (
	"bytes"
	"encoding/json"
	"errors"
	"fmt"
	"sort"
	"sync"
	"time"

	"github.com/Breeze0806/gobinlog/replication"
	"pgregory.net/rapid"

	"verif/gen"
	"verif/hist"
	"verif/refenc"
)

// CellCase is one direct decoder case: a column, a logical value, the
// signedness the mapper would report and how much unrelated data surrounds the
// cell in the row image.
type CellCase struct {
	Col      hist.Column
	Val      hist.Value
	Unsigned bool
	Pre      int
	Post     int
}

func junk(n int, seed byte) []byte {
	b := make([]byte, n)
	for i := range b {
		b[i] = seed + byte(i*37)
	}
	return b
}

// checkCell feeds the master's encoding of the value to CellBytes and compares
// the delivered text and the consumed length with the reference model.
func checkCell(c CellCase) error {
	out, exp, err := checkCellPure(c)
	if err != nil {
		return err
	}
	return retainAndVerify(c, exp, out)
}

// checkCellPure decodes one cell from a fresh buffer and compares it with the model; it
// touches no harness state, so several goroutines may run it at once.
func checkCellPure(c CellCase) ([]byte, hist.Expect, error) {
	cell := hist.EncodeCell(c.Col, c.Val)
	data := append(append(junk(c.Pre, 0xA5), cell...), junk(c.Post, 0x5A)...)
	orig := append([]byte{}, data...)
	var out []byte
	var n int
	err := guard(func() error {
		var e error
		out, n, e = replication.CellBytes(data, c.Pre, c.Col.Type, c.Col.LibMeta(), c.Unsigned)
		return e
	})
	if err != nil {
		return nil, hist.Expect{}, fmt.Errorf("CellBytes(type %d meta %#x) failed on a well-formed value: %v", c.Col.Type, c.Col.LibMeta(), err)
	}
	if n != len(cell) {
		return nil, hist.Expect{}, fmt.Errorf("CellBytes(type %d meta %#x) consumed %d bytes, the cell has %d", c.Col.Type, c.Col.LibMeta(), n, len(cell))
	}
	if !bytes.Equal(data, orig) {
		return nil, hist.Expect{}, fmt.Errorf("CellBytes(type %d) modified the row image it was given", c.Col.Type)
	}
	exp := hist.ExpectCell(c.Col, c.Val, c.Unsigned)
	if err := exp.Check(out); err != nil {
		return nil, hist.Expect{}, fmt.Errorf("type %d meta %#x: %v", c.Col.Type, c.Col.LibMeta(), err)
	}
	// decoding is a function of the cell: the same cell decoded again gives the same text and length,
	// and the first result is still what it was
	first := append([]byte{}, out...)
	var out2 []byte
	var n2 int
	err = guard(func() error {
		var e error
		out2, n2, e = replication.CellBytes(data, c.Pre, c.Col.Type, c.Col.LibMeta(), c.Unsigned)
		return e
	})
	if err != nil || n2 != n || !bytes.Equal(out2, first) || !bytes.Equal(out, first) {
		return nil, hist.Expect{}, fmt.Errorf("type %d meta %#x: decoding the same cell a second time gave %q (%d bytes consumed, err %v), the first time %q (%d); the first result now reads %q",
			c.Col.Type, c.Col.LibMeta(), clipB(out2), n2, err, clipB(first), n, clipB(out))
	}
	return out, exp, nil
}

// retainAndVerify re-checks the outputs of earlier calls and remembers this one.
func retainAndVerify(c CellCase, exp hist.Expect, out []byte) error {
	// values handed out earlier must still be what they were: decoding another cell must not
	// change them (a decoder that recycles its output buffer would)
	for i := range retained {
		r := &retained[i]
		if r.out == nil {
			continue
		}
		if err := r.exp.Check(r.out); err != nil {
			prev := r.c
			retained = [4]retainedCell{}
			return &cellSeqError{Prev: prev, Cur: c, msg: fmt.Sprintf("a value decoded earlier (type %d) changed after a later cell (type %d) was decoded: %v", prev.Col.Type, c.Col.Type, err)}
		}
	}
	if len(out) <= 256 {
		retained[retainedNext%len(retained)] = retainedCell{c: c, exp: exp, out: out}
		retainedNext++
	}
	return nil
}

type retainedCell struct {
	c   CellCase
	exp hist.Expect
	out []byte
}

var retained [4]retainedCell
var retainedNext int

// cellSeqError carries the two cells whose decoding order exposes aliasing.
type cellSeqError struct {
	Prev, Cur CellCase
	msg       string
}

func (e *cellSeqError) Error() string { return e.msg }

// CellSeqCase decodes Prev, then Cur, then looks at Prev's output again.
type CellSeqCase struct{ Prev, Cur CellCase }

func checkCellSeq(c CellSeqCase) error {
	retained = [4]retainedCell{}
	if err := checkCell(c.Prev); err != nil {
		return err
	}
	return checkCell(c.Cur)
}

func init() {
	registerReplay("cellpar", func(raw json.RawMessage) error {
		var c ParallelCells
		if err := json.Unmarshal(raw, &c); err != nil {
			return err
		}
		for i := 0; i < 20; i++ { // schedule dependent: several tries
			if err := checkCellsParallel(&c); err != nil {
				return err
			}
		}
		return nil
	})
	registerReplay("cellseq", func(raw json.RawMessage) error {
		var c CellSeqCase
		if err := json.Unmarshal(raw, &c); err != nil {
			return err
		}
		return checkCellSeq(c)
	})
	registerReplay("cell", func(raw json.RawMessage) error {
		var c CellCase
		if err := json.Unmarshal(raw, &c); err != nil {
			return err
		}
		return checkCell(c)
	})
}

func typeName(t byte, real byte) string {
	names := map[byte]string{refenc.TTiny: "tiny", refenc.TShort: "short", refenc.TInt24: "int24", refenc.TLong: "long", refenc.TLongLong: "longlong",
		refenc.TFloat: "float", refenc.TDouble: "double", refenc.TYear: "year", refenc.TDate: "date", refenc.TTime: "time", refenc.TDateTime: "datetime",
		refenc.TTimestamp: "timestamp", refenc.TTimestamp2: "timestamp2", refenc.TDateTime2: "datetime2", refenc.TTime2: "time2", refenc.TVarchar: "varchar",
		refenc.TBit: "bit", refenc.TNewDecimal: "newdecimal", refenc.TBlob: "blob", refenc.TJSON: "json", refenc.TGeometry: "geometry", refenc.TString: "string",
		refenc.TNewDate: "newdate", refenc.TEnum: "enum", refenc.TSet: "set", refenc.TTinyBlob: "tinyblob", refenc.TMediumBlob: "mediumblob",
		refenc.TLongBlob: "longblob", refenc.TVarString: "varstring"}
	n := names[t]
	if t == refenc.TString {
		switch real {
		case refenc.TEnum:
			n = "string/enum"
		case refenc.TSet:
			n = "string/set"
		default:
			n = "string/char"
		}
	}
	return n
}

func bytesReader(b []byte) *bytes.Reader { return bytes.NewReader(b) }

func sortInts(a []int) { sort.Ints(a) }

func sortStrings(a []string) { sort.Strings(a) }

// cellViolation records a failing direct-decoder case (a single cell, or the
// pair of cells whose order exposes aliasing).
func cellViolation(rec *Recorder, c CellCase, err error) string {
	var se *cellSeqError
	if errors.As(err, &se) {
		return rec.Violation("cellseq", CellSeqCase{Prev: se.Prev, Cur: se.Cur}, "", err)
	}
	return rec.Violation("cell", c, "", err)
}

// ParallelCells: several goroutines decode their own list of cells at the same time
// (several streamers in one process do exactly that).
type ParallelCells struct {
	Lists [][]CellCase
	Iters int
}

func checkCellsParallel(c *ParallelCells) error {
	errs := make([]error, len(c.Lists))
	var wg sync.WaitGroup
	start := make(chan struct{})
	// encode once, decode many times
	type prepared struct {
		cc   CellCase
		data []byte
		n    int
		exp  hist.Expect
	}
	prep := make([][]prepared, len(c.Lists))
	for g, list := range c.Lists {
		for _, cc := range list {
			cell := hist.EncodeCell(cc.Col, cc.Val)
			data := append(append(junk(cc.Pre, 0xA5), cell...), junk(cc.Post, 0x5A)...)
			prep[g] = append(prep[g], prepared{cc, data, len(cell), hist.ExpectCell(cc.Col, cc.Val, cc.Unsigned)})
		}
	}
	for g := range c.Lists {
		wg.Add(1)
		go func(g int) {
			defer wg.Done()
			<-start
			for it := 0; it < c.Iters && errs[g] == nil; it++ {
				for _, p := range prep[g] {
					var out []byte
					var n int
					err := guard(func() (e error) {
						out, n, e = replication.CellBytes(p.data, p.cc.Pre, p.cc.Col.Type, p.cc.Col.LibMeta(), p.cc.Unsigned)
						return
					})
					if err == nil && n != p.n {
						err = fmt.Errorf("consumed %d bytes, the cell has %d", n, p.n)
					}
					if err == nil {
						err = p.exp.Check(out)
					}
					if err != nil {
						errs[g] = fmt.Errorf("goroutine %d of %d decoding concurrently (iteration %d, type %d meta %#x): %v", g, len(c.Lists), it, p.cc.Col.Type, p.cc.Col.LibMeta(), err)
						break
					}
				}
			}
		}(g)
	}
	close(start)
	wg.Wait()
	for _, err := range errs {
		if err != nil {
			return err
		}
	}
	return nil
}

// drawParallelCells draws 2..4 lists of 1..4 cells each for the given column kinds.
func drawParallelCells(rt *rapid.T, kinds []struct{ T, Real byte }, lim gen.Limits) *ParallelCells {
	pc := &ParallelCells{Iters: rapid.IntRange(10, 60).Draw(rt, "par_iters")}
	ng := rapid.IntRange(2, 4).Draw(rt, "par_goroutines")
	for g := 0; g < ng; g++ {
		var list []CellCase
		for i, n := 0, rapid.IntRange(1, 4).Draw(rt, "par_cells"); i < n; i++ {
			k := rapid.SampledFrom(kinds).Draw(rt, "par_kind")
			col := gen.ColumnOf(rt, k.T, k.Real, gen.ColumnOpt{Extra: true, NoHeavy: true})
			list = append(list, CellCase{Col: col, Val: gen.ValueOf(rt, col, lim), Unsigned: rapid.Bool().Draw(rt, "par_unsigned"), Pre: 1, Post: 1})
		}
		pc.Lists = append(pc.Lists, list)
	}
	return pc
}

// parallelPart runs the concurrent-decoder part of a direct decoder check.
func parallelPart(rt *rapid.T, rec *Recorder, id string, kinds []struct{ T, Real byte }) {
	lim := gen.Limits{MaxBlob: 300, MaxJSONKB: 66, SmallJSON: true}
	pc := drawParallelCells(rt, kinds, lim)
	rec.Case(true, pc, "concurrent-decoders")
	if err := checkCellsParallel(pc); err != nil {
		rec.Violation("cellpar", pc, "", err)
		rt.Fatalf("%s violation: %v", id, err)
	}
}

// reannouncePart: end to end, a table id announced again with other column types / metadata must
// be split AND decoded with the new definition (shared with C15's scenario).
func reannouncePart(rt *rapid.T, rec *Recorder, id string) {
	c := drawRebind(rt, rapid.SampledFrom([]int{0, 0, 5}).Draw(rt, "reannounce_mode"))
	rec.Case(true, c, "e2e/re-announced-table-map")
	journal(id, "c15rebind", c)
	if err := checkRebind(c); err != nil {
		rec.Violation("c15rebind", c, "", err)
		rt.Fatalf("%s violation: %v", id, err)
	}
}

// zoneTransitions lists the instants (1970..2038) at which the UTC offset of the process zone changes.
func zoneTransitions() []int64 {
	var out []int64
	_, prev := time.Unix(0, 0).In(time.Local).Zone()
	for t := int64(0); t < 1<<31; t += 6 * 3600 {
		_, off := time.Unix(t, 0).In(time.Local).Zone()
		if off != prev {
			// binary search the exact second inside the last 6 hours
			lo, hi := t-6*3600, t
			for hi-lo > 1 {
				mid := (lo + hi) / 2
				if _, o := time.Unix(mid, 0).In(time.Local).Zone(); o == prev {
					lo = mid
				} else {
					hi = mid
				}
			}
			out = append(out, hi)
			prev = off
		}
	}
	return out
}
