package props

import (
	"bytes"
	"encoding/json"
	"errors"
	"fmt"
	"sort"

	"github.com/Breeze0806/gobinlog/replication"

	"verif/hist"
	"verif/refenc"
)

// CellCase is one direct decoder case: a column, a logical value, the
// signedness the mapper would report and how much unrelated data surrounds the
// cell in the row image.
type CellCase struct {
	Col      hist.Column
	Val      hist.Value
	Unsigned bool
	Pre      int
	Post     int
}

func junk(n int, seed byte) []byte {
	b := make([]byte, n)
	for i := range b {
		b[i] = seed + byte(i*37)
	}
	return b
}

// checkCell feeds the master's encoding of the value to CellBytes and compares
// the delivered text and the consumed length with the reference model.
func checkCell(c CellCase) error {
	cell := hist.EncodeCell(c.Col, c.Val)
	data := append(append(junk(c.Pre, 0xA5), cell...), junk(c.Post, 0x5A)...)
	orig := append([]byte{}, data...)
	var out []byte
	var n int
	err := guard(func() error {
		var e error
		out, n, e = replication.CellBytes(data, c.Pre, c.Col.Type, c.Col.LibMeta(), c.Unsigned)
		return e
	})
	if err != nil {
		return fmt.Errorf("CellBytes(type %d meta %#x) failed on a well-formed value: %v", c.Col.Type, c.Col.LibMeta(), err)
	}
	if n != len(cell) {
		return fmt.Errorf("CellBytes(type %d meta %#x) consumed %d bytes, the cell has %d", c.Col.Type, c.Col.LibMeta(), n, len(cell))
	}
	if !bytes.Equal(data, orig) {
		return fmt.Errorf("CellBytes(type %d) modified the row image it was given", c.Col.Type)
	}
	exp := hist.ExpectCell(c.Col, c.Val, c.Unsigned)
	if err := exp.Check(out); err != nil {
		return fmt.Errorf("type %d meta %#x: %v", c.Col.Type, c.Col.LibMeta(), err)
	}
	// values handed out earlier must still be what they were: decoding another cell must not
	// change them (a decoder that recycles its output buffer would)
	for i := range retained {
		r := &retained[i]
		if r.out == nil {
			continue
		}
		if err := r.exp.Check(r.out); err != nil {
			prev := r.c
			retained = [4]retainedCell{}
			return &cellSeqError{Prev: prev, Cur: c, msg: fmt.Sprintf("a value decoded earlier (type %d) changed after a later cell (type %d) was decoded: %v", prev.Col.Type, c.Col.Type, err)}
		}
	}
	if len(out) <= 256 {
		retained[retainedNext%len(retained)] = retainedCell{c: c, exp: exp, out: out}
		retainedNext++
	}
	return nil
}

type retainedCell struct {
	c   CellCase
	exp hist.Expect
	out []byte
}

var retained [4]retainedCell
var retainedNext int

// cellSeqError carries the two cells whose decoding order exposes aliasing.
type cellSeqError struct {
	Prev, Cur CellCase
	msg       string
}

func (e *cellSeqError) Error() string { return e.msg }

// CellSeqCase decodes Prev, then Cur, then looks at Prev's output again.
type CellSeqCase struct{ Prev, Cur CellCase }

func checkCellSeq(c CellSeqCase) error {
	retained = [4]retainedCell{}
	if err := checkCell(c.Prev); err != nil {
		return err
	}
	return checkCell(c.Cur)
}

func init() {
	registerReplay("cellseq", func(raw json.RawMessage) error {
		var c CellSeqCase
		if err := json.Unmarshal(raw, &c); err != nil {
			return err
		}
		return checkCellSeq(c)
	})
	registerReplay("cell", func(raw json.RawMessage) error {
		var c CellCase
		if err := json.Unmarshal(raw, &c); err != nil {
			return err
		}
		return checkCell(c)
	})
}

func typeName(t byte, real byte) string {
	names := map[byte]string{refenc.TTiny: "tiny", refenc.TShort: "short", refenc.TInt24: "int24", refenc.TLong: "long", refenc.TLongLong: "longlong",
		refenc.TFloat: "float", refenc.TDouble: "double", refenc.TYear: "year", refenc.TDate: "date", refenc.TTime: "time", refenc.TDateTime: "datetime",
		refenc.TTimestamp: "timestamp", refenc.TTimestamp2: "timestamp2", refenc.TDateTime2: "datetime2", refenc.TTime2: "time2", refenc.TVarchar: "varchar",
		refenc.TBit: "bit", refenc.TNewDecimal: "newdecimal", refenc.TBlob: "blob", refenc.TJSON: "json", refenc.TGeometry: "geometry", refenc.TString: "string",
		refenc.TNewDate: "newdate", refenc.TEnum: "enum", refenc.TSet: "set", refenc.TTinyBlob: "tinyblob", refenc.TMediumBlob: "mediumblob",
		refenc.TLongBlob: "longblob", refenc.TVarString: "varstring"}
	n := names[t]
	if t == refenc.TString {
		switch real {
		case refenc.TEnum:
			n = "string/enum"
		case refenc.TSet:
			n = "string/set"
		default:
			n = "string/char"
		}
	}
	return n
}

func bytesReader(b []byte) *bytes.Reader { return bytes.NewReader(b) }

func sortInts(a []int) { sort.Ints(a) }

func sortStrings(a []string) { sort.Strings(a) }

// cellViolation records a failing direct-decoder case (a single cell, or the
// pair of cells whose order exposes aliasing).
func cellViolation(rec *Recorder, c CellCase, err error) string {
	var se *cellSeqError
	if errors.As(err, &se) {
		return rec.Violation("cellseq", CellSeqCase{Prev: se.Prev, Cur: se.Cur}, "", err)
	}
	return rec.Violation("cell", c, "", err)
}
