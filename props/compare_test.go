package props

import (
	"bytes"
	"fmt"

	"github.com/Breeze0806/gobinlog"

	"verif/hist"
)

var kindConst = map[string]gobinlog.StatementType{
	"begin": gobinlog.StatementBegin, "commit": gobinlog.StatementCommit, "rollback": gobinlog.StatementRollback,
	"insert": gobinlog.StatementInsert, "update": gobinlog.StatementUpdate, "delete": gobinlog.StatementDelete,
	"create": gobinlog.StatementCreate, "alter": gobinlog.StatementAlter, "drop": gobinlog.StatementDrop,
	"truncate": gobinlog.StatementTruncate, "rename": gobinlog.StatementRename, "set": gobinlog.StatementSet,
	"unknown": gobinlog.StatementUnknown,
}

func compareImage(got *gobinlog.RowData, exp []hist.ExpCol, what string) error {
	if got == nil {
		return fmt.Errorf("%s: nil row", what)
	}
	if len(got.Columns) != len(exp) {
		return fmt.Errorf("%s: %d columns delivered, table has %d", what, len(got.Columns), len(exp))
	}
	for c, e := range exp {
		g := got.Columns[c]
		if g == nil {
			return fmt.Errorf("%s col %d: nil column", what, c)
		}
		if g.Filed != e.Name {
			return fmt.Errorf("%s col %d: name %q, want %q", what, c, g.Filed, e.Name)
		}
		if int(g.Type) != int(e.Type) {
			return fmt.Errorf("%s col %d (%s): type %d, want %d", what, c, e.Name, int(g.Type), e.Type)
		}
		if g.IsEmpty != e.Absent {
			return fmt.Errorf("%s col %d (%s): absent flag %v, want %v", what, c, e.Name, g.IsEmpty, e.Absent)
		}
		if e.Absent {
			continue
		}
		if e.Null {
			if g.Data != nil {
				return fmt.Errorf("%s col %d (%s): NULL delivered with data %q", what, c, e.Name, clipB(g.Data))
			}
			continue
		}
		if g.Data == nil {
			return fmt.Errorf("%s col %d (%s): non-NULL value delivered without data (looks like NULL)", what, c, e.Name)
		}
		if err := e.Exp.Check(g.Data); err != nil {
			return fmt.Errorf("%s col %d (%s, type %d): %v", what, c, e.Name, e.Type, err)
		}
	}
	return nil
}

func clipB(b []byte) []byte {
	if len(b) > 80 {
		return b[:80]
	}
	return b
}

func compareEvent(g *gobinlog.StreamEvent, e *hist.ExpEvent, what string) error {
	if g == nil {
		return fmt.Errorf("%s: nil event", what)
	}
	if g.Type != kindConst[e.Kind] {
		return fmt.Errorf("%s: kind %v, want %s", what, g.Type, e.Kind)
	}
	if g.Timestamp != e.TS {
		return fmt.Errorf("%s: timestamp %d, want %d", what, g.Timestamp, e.TS)
	}
	if e.IsQuery {
		if g.Query.SQL != e.SQL {
			return fmt.Errorf("%s: SQL %q, want %q", what, g.Query.SQL, e.SQL)
		}
		if g.Query.Database != e.QDB {
			return fmt.Errorf("%s: database %q, want %q", what, g.Query.Database, e.QDB)
		}
		if (g.Query.Charset == nil) != (e.Charset == nil) {
			return fmt.Errorf("%s: charset %v, want %v", what, g.Query.Charset, e.Charset)
		}
		if e.Charset != nil && (g.Query.Charset.Client != e.Charset[0] || g.Query.Charset.Conn != e.Charset[1] || g.Query.Charset.Server != e.Charset[2]) {
			return fmt.Errorf("%s: charset %v, want %v", what, g.Query.Charset, *e.Charset)
		}
		if len(g.RowValues) != 0 || len(g.RowIdentifies) != 0 {
			return fmt.Errorf("%s: statement event carries rows", what)
		}
		return nil
	}
	if g.Table.DbName != e.DB || g.Table.TableName != e.Table {
		return fmt.Errorf("%s: table %q.%q, want %q.%q", what, g.Table.DbName, g.Table.TableName, e.DB, e.Table)
	}
	if len(g.RowValues) != len(e.Values) {
		return fmt.Errorf("%s: %d after-images, want %d", what, len(g.RowValues), len(e.Values))
	}
	if len(g.RowIdentifies) != len(e.Identifies) {
		return fmt.Errorf("%s: %d before-images, want %d", what, len(g.RowIdentifies), len(e.Identifies))
	}
	for r := range e.Values {
		if err := compareImage(g.RowValues[r], e.Values[r], fmt.Sprintf("%s row %d after", what, r)); err != nil {
			return err
		}
	}
	for r := range e.Identifies {
		if err := compareImage(g.RowIdentifies[r], e.Identifies[r], fmt.Sprintf("%s row %d before", what, r)); err != nil {
			return err
		}
	}
	return nil
}

func posEq(g gobinlog.Position, e hist.Pos) bool { return g.Filename == e.File && g.Offset == e.Off }

// compareTx checks one delivered transaction against the reference model.
// labels=false skips the position labels (C02 judges grouping only).
func compareTx(g *gobinlog.Transaction, e *hist.ExpTx, k int, labels bool) error {
	what := fmt.Sprintf("tx %d (unit %d)", k, e.Unit)
	if g == nil {
		return fmt.Errorf("%s: nil transaction", what)
	}
	if labels {
		if !posEq(g.NowPosition, e.Now) {
			return fmt.Errorf("%s: start label %+v, want %+v", what, g.NowPosition, e.Now)
		}
		if !posEq(g.NextPosition, e.Next) {
			return fmt.Errorf("%s: end label %+v, want %+v", what, g.NextPosition, e.Next)
		}
	}
	if g.Timestamp != e.TS {
		return fmt.Errorf("%s: timestamp %d, want %d", what, g.Timestamp, e.TS)
	}
	if len(g.Events) != len(e.Events) {
		return fmt.Errorf("%s: %d events, want %d", what, len(g.Events), len(e.Events))
	}
	for i := range e.Events {
		if err := compareEvent(g.Events[i], &e.Events[i], fmt.Sprintf("%s event %d", what, i)); err != nil {
			return err
		}
	}
	return nil
}

func compareTxs(got []*gobinlog.Transaction, exp []hist.ExpTx, labels bool) error {
	for k := range exp {
		if k >= len(got) {
			return fmt.Errorf("%d transactions delivered, want %d (first missing: unit %d)", len(got), len(exp), exp[k].Unit)
		}
		if err := compareTx(got[k], &exp[k], k, labels); err != nil {
			return err
		}
	}
	if len(got) > len(exp) {
		return fmt.Errorf("%d transactions delivered, want %d (extra: %+v .. %+v)", len(got), len(exp), got[len(exp)].NowPosition, got[len(exp)].NextPosition)
	}
	return nil
}

// txEqual is reflect.DeepEqual for delivered transactions without its bookkeeping of visited pointers
// (which costs hundreds of megabytes on a transaction of 66000 events): same positions, timestamp, and
// the same events, rows and columns with the same nil-ness of every slice and pointer.
func txEqual(a, b *gobinlog.Transaction) bool {
	if a == nil || b == nil {
		return a == b
	}
	if a.NowPosition != b.NowPosition || a.NextPosition != b.NextPosition || a.Timestamp != b.Timestamp {
		return false
	}
	if (a.Events == nil) != (b.Events == nil) || len(a.Events) != len(b.Events) {
		return false
	}
	for i := range a.Events {
		if !eventEqual(a.Events[i], b.Events[i]) {
			return false
		}
	}
	return true
}

func eventEqual(a, b *gobinlog.StreamEvent) bool {
	if a == nil || b == nil {
		return a == b
	}
	if a.Type != b.Type || a.Table != b.Table || a.Timestamp != b.Timestamp || a.Query.SQL != b.Query.SQL || a.Query.Database != b.Query.Database {
		return false
	}
	if (a.Query.Charset == nil) != (b.Query.Charset == nil) || (a.Query.Charset != nil && *a.Query.Charset != *b.Query.Charset) {
		return false
	}
	return rowsEqual(a.RowValues, b.RowValues) && rowsEqual(a.RowIdentifies, b.RowIdentifies)
}

func rowsEqual(a, b []*gobinlog.RowData) bool {
	if (a == nil) != (b == nil) || len(a) != len(b) {
		return false
	}
	for i := range a {
		if a[i] == nil || b[i] == nil {
			if a[i] != b[i] {
				return false
			}
			continue
		}
		ca, cb := a[i].Columns, b[i].Columns
		if (ca == nil) != (cb == nil) || len(ca) != len(cb) {
			return false
		}
		for k := range ca {
			if !colEqual(ca[k], cb[k]) {
				return false
			}
		}
	}
	return true
}

func colEqual(a, b *gobinlog.ColumnData) bool {
	if a == nil || b == nil {
		return a == b
	}
	return a.Filed == b.Filed && a.Type == b.Type && a.IsEmpty == b.IsEmpty && (a.Data == nil) == (b.Data == nil) && bytes.Equal(a.Data, b.Data)
}
