package props

import (
	"bytes"
	"encoding/binary"
	"encoding/json"
	"fmt"
	"testing"
	"time"
	"verif/fakemaster"

	"github.com/Breeze0806/gobinlog"
	"github.com/Breeze0806/gobinlog/replication"
	"pgregory.net/rapid"

	"verif/gen"
	"verif/hist"
)

type headerAccessors interface {
	Type() byte
	Flags() uint16
	ServerID() uint32
	Length() uint32
}

// checkGate is C17(a): the validity predicate and the header accessors on one
// byte string, for both event flavors.
func checkGate(b []byte) error {
	want := len(b) >= 19 && binary.LittleEndian.Uint32(b[9:13]) == uint32(len(b))
	for name, mk := range map[string]func([]byte) replication.BinlogEvent{"mysql56": replication.NewMysql56BinlogEvent, "mariadb": replication.NewMariadbBinlogEvent} {
		buf := append([]byte{}, b...)
		ev := mk(buf)
		var got bool
		if err := guard(func() error { got = ev.IsValid(); return nil }); err != nil {
			return fmt.Errorf("%s: IsValid panicked on %d bytes: %v", name, len(b), err)
		}
		if got != want {
			return fmt.Errorf("%s: IsValid = %v on %d bytes with length field %s, want %v", name, got, len(b), lenField(b), want)
		}
		if !got {
			continue
		}
		err := guard(func() error {
			if ts := ev.Timestamp(); ts != binary.LittleEndian.Uint32(b[0:4]) {
				return fmt.Errorf("Timestamp() = %d", ts)
			}
			if np := ev.NextPosition(); np != int64(binary.LittleEndian.Uint32(b[13:17])) {
				return fmt.Errorf("NextPosition() = %d", np)
			}
			h, ok := ev.(headerAccessors)
			if !ok {
				return fmt.Errorf("event does not expose Type/Flags/ServerID/Length")
			}
			if h.Type() != b[4] || h.Flags() != binary.LittleEndian.Uint16(b[17:19]) || h.ServerID() != binary.LittleEndian.Uint32(b[5:9]) || h.Length() != uint32(len(b)) {
				return fmt.Errorf("header accessors disagree with the bytes: type %d flags %#x server %d length %d", h.Type(), h.Flags(), h.ServerID(), h.Length())
			}
			t := b[4]
			preds := []struct {
				name string
				got  bool
				want bool
			}{
				{"IsFormatDescription", ev.IsFormatDescription(), t == 15}, {"IsQuery", ev.IsQuery(), t == 2}, {"IsXID", ev.IsXID(), t == 16},
				{"IsRotate", ev.IsRotate(), t == 4}, {"IsIntVar", ev.IsIntVar(), t == 5}, {"IsRand", ev.IsRand(), t == 13},
				{"IsPreviousGTIDs", ev.IsPreviousGTIDs(), t == 35}, {"IsRowsQuery", ev.IsRowsQuery(), t == 29}, {"IsTableMap", ev.IsTableMap(), t == 19},
				{"IsWriteRows", ev.IsWriteRows(), t == 23 || t == 30}, {"IsUpdateRows", ev.IsUpdateRows(), t == 24 || t == 31}, {"IsDeleteRows", ev.IsDeleteRows(), t == 25 || t == 32},
			}
			for _, p := range preds {
				if p.got != p.want {
					return fmt.Errorf("%s() = %v for type code %d", p.name, p.got, t)
				}
			}
			wantGTID := t == 33
			if name == "mariadb" {
				wantGTID = t == 162
			}
			if ev.IsGTID() != wantGTID {
				return fmt.Errorf("IsGTID() = %v for type code %d", ev.IsGTID(), t)
			}
			if !bytes.Equal(ev.Bytes(), b) {
				return fmt.Errorf("Bytes() differs from the buffer")
			}
			return nil
		})
		if err != nil {
			return fmt.Errorf("%s: accepted buffer of %d bytes: %v", name, len(b), err)
		}
		if !bytes.Equal(buf, b) {
			return fmt.Errorf("%s: the buffer was modified", name)
		}
	}
	return nil
}

func lenField(b []byte) string {
	if len(b) < 13 {
		return "(absent)"
	}
	return fmt.Sprint(binary.LittleEndian.Uint32(b[9:13]))
}

// InjectCase is C17(b): a history with a gate-failing packet injected at one index.
var slowInjectDone bool

type InjectCase struct {
	H      *hist.History
	At     int
	Sub    int
	Pacing int
	// Quiet: the malformed packet is the last thing the master sends; it keeps the connection open and silent
	Quiet bool `json:",omitempty"`
	// OwnID: the replica is configured with the server id the master's events carry (a ring of servers)
	OwnID bool `json:",omitempty"`
	// DelayMs: the master pauses this long in front of the malformed packet (a replica that does something
	// periodically gets the chance to do it on exactly that packet)
	DelayMs int `json:",omitempty"`
	// EmptyName: the start position names no file (= the master's first file)
	EmptyName bool `json:",omitempty"`
	// Twin > 0: a second malformed packet - shorter than an event header (Twin-1: empty, 1, 10 or 16 bytes) -
	// follows the first one directly, so that it is what the replica holds (unchecked so far) while the
	// stream is torn down for the first; nothing may touch it
	Twin int `json:",omitempty"`
}

func checkInject(c *InjectCase) error {
	l, err := c.H.Lay()
	if err != nil {
		return fmt.Errorf("harness: %v", err)
	}
	start := hist.Pos{File: c.H.FirstFile, Off: c.H.Base}
	exp := l.Expected(start, 0)
	sid := uint32(17)
	if c.OwnID {
		sid = c.H.Cfg.ServerID
	}
	callerStart := start
	if c.EmptyName {
		callerStart.File = ""
	}
	ss, err := newSession(c.H.Tables, sid, callerStart)
	if err != nil {
		return fmt.Errorf("harness: %v", err)
	}
	defer ss.close()
	f := Fault{Kind: "invalid", At: c.At, Sub: c.Sub}
	var streamPanic interface{}
	at := attempt{l: l, pacing: c.Pacing, mutate: applyFault(l, f)}
	if c.DelayMs > 0 {
		at.plan = &fakemaster.ConnPlan{Gate: func(i int, s *fakemaster.Step) bool {
			if s.Tag == -9 {
				time.Sleep(time.Duration(c.DelayMs) * time.Millisecond)
			}
			return true
		}}
		at.pacing = PaceFarAhead
	}
	if c.Twin > 0 {
		inner := at.mutate
		at.mutate = func(steps []fakemaster.Step, evIdx []int) []fakemaster.Step {
			out := inner(steps, evIdx)
			for i := range out {
				if out[i].Tag == -9 {
					short := bytes.Repeat([]byte{0x21}, []int{0, 1, 10, 16}[(c.Twin-1)%4])
					twin := fakemaster.Step{Payload: fakemaster.EventPacket(short), Tag: -10}
					out = append(out[:i+1], append([]fakemaster.Step{twin}, out[i+1:]...)...)
					break
				}
			}
			return out
		}
	}
	if c.Quiet {
		inner := at.mutate
		at.mutate = func(steps []fakemaster.Step, evIdx []int) []fakemaster.Step {
			out := inner(steps, evIdx)
			for i := range out {
				if out[i].Tag == -9 {
					if c.Twin > 0 {
						i++
					}
					out = out[:i+1]
					out[i].Then = fakemaster.Hold
					break
				}
			}
			return out
		}
		at.fallback = 3 * time.Second
	}
	st := func() (st *attemptState) {
		defer func() {
			if r := recover(); r != nil {
				streamPanic = r
			}
		}()
		return ss.run(at)
	}()
	if streamPanic != nil {
		return fmt.Errorf("panic while streaming a malformed packet: %v", streamPanic)
	}
	st.drainLib()
	if !st.served {
		return fmt.Errorf("harness: not servable")
	}
	if c.Quiet && st.fellBack {
		return fmt.Errorf("a packet failing the validity gate was injected at index %d (class %d) and the master then stayed silent: Stream had not returned 3 s later", c.At, c.Sub%badClasses)
	}
	before := commitsIn(l, st.evIdx, c.At)
	if st.streamErr == nil {
		return fmt.Errorf("a packet failing the validity gate was injected at index %d (class %d) but Stream returned nil", c.At, c.Sub%badClasses)
	}
	if len(st.got) > before {
		return fmt.Errorf("%d transactions were delivered although only %d commit events precede the malformed packet at index %d", len(st.got), before, c.At)
	}
	if err := compareTxs(st.got, exp[:len(st.got)], !c.EmptyName); err != nil {
		return fmt.Errorf("deliveries before the malformed packet: %v", err)
	}
	if len(st.got) != before {
		return fmt.Errorf("%d transactions delivered, %d commit events precede the malformed packet (a committed transaction was lost)", len(st.got), before)
	}
	// the next attempt resumes at the last accepted commit boundary and completes the history exactly once
	st2 := ss.run(attempt{l: l})
	st2.drainLib()
	req, ok := st2.dump()
	if !ok {
		return fmt.Errorf("second attempt never requested a dump [stream err %v]", st2.streamErr)
	}
	allowed := allowedResume(l, exp, len(st.got), start, 0)
	if c.EmptyName {
		allowed = withEmptyName(allowed, c.H.FirstFile)
		if len(st.got) == 0 {
			allowed[callerStart] = true
		}
	}
	if !allowed[hist.Pos{File: req.File, Off: int64(req.Pos)}] {
		return fmt.Errorf("after the malformed packet the next attempt asks for %q:%d; allowed resume points are %v", req.File, req.Pos, keys(allowed))
	}
	all := append(append([]*gobinlog.Transaction{}, st.got...), st2.got...)
	if err := compareTxs(all, exp, false); err != nil {
		return fmt.Errorf("after resuming: %v", err)
	}
	return nil
}

func init() {
	registerReplay("c17gate", func(raw json.RawMessage) error {
		var b []byte
		if err := json.Unmarshal(raw, &b); err != nil {
			return err
		}
		return checkGate(b)
	})
	registerReplay("c17inject", func(raw json.RawMessage) error {
		var c InjectCase
		if err := json.Unmarshal(raw, &c); err != nil {
			return err
		}
		return checkInject(&c)
	})
}

// gateClass draws a byte string in one of the structured classes.
func gateClass(rt *rapid.T) ([]byte, string) {
	n := rapid.IntRange(0, 64).Draw(rt, "len")
	b := rapid.SliceOfN(rapid.Byte(), n, n).Draw(rt, "bytes")
	cls := "random-short"
	switch rapid.IntRange(0, 7).Draw(rt, "class") {
	case 0:
		if n >= 13 {
			binary.LittleEndian.PutUint32(b[9:], uint32(n))
			cls = "length-field==len"
		}
	case 1:
		if n >= 13 {
			binary.LittleEndian.PutUint32(b[9:], uint32(n+rapid.IntRange(1, 300).Draw(rt, "over")))
			cls = "length-field>len"
		}
	case 2:
		if n >= 13 {
			if rapid.Bool().Draw(rt, "under_near") {
				// the buffer is over-long by a small amount (1..16 bytes: checksum-sized and other trailers)
				binary.LittleEndian.PutUint32(b[9:], uint32(max(0, n-rapid.IntRange(1, 16).Draw(rt, "under_by"))))
			} else {
				binary.LittleEndian.PutUint32(b[9:], uint32(rapid.IntRange(0, max(0, n-1)).Draw(rt, "under")))
			}
			cls = "length-field<len"
		}
	case 3:
		for i := range b {
			b[i] = 0xff
		}
		cls = "all-0xff"
	case 4:
		n = rapid.IntRange(0, 18).Draw(rt, "short_len")
		b = b[:min(n, len(b))]
		if len(b) >= 13 {
			binary.LittleEndian.PutUint32(b[9:], uint32(len(b)))
		}
		cls = "shorter-than-header"
	case 5:
		m := rapid.IntRange(65, 5000).Draw(rt, "long_len")
		b = append(b, make([]byte, m)...)
		if rapid.Bool().Draw(rt, "long_ok") {
			binary.LittleEndian.PutUint32(b[9:], uint32(len(b)))
		}
		cls = "long"
	case 6:
		if n >= 13 {
			// length field equal modulo 2^16 / 2^24 only
			binary.LittleEndian.PutUint32(b[9:], uint32(n)|uint32(rapid.IntRange(1, 255).Draw(rt, "hi"))<<uint(8*rapid.IntRange(1, 3).Draw(rt, "hi_byte")))
			cls = "length-field-high-bytes"
		}
	}
	return b, cls
}

func TestC17(t *testing.T) {
	rec := recorder("C17")
	defer rec.Flush(t)
	o := faultHistOpt()
	o.Rotations = 1
	rapidCheck(t, func(rt *rapid.T) {
		switch rapid.IntRange(0, 3).Draw(rt, "part") {
		case 0, 1: // (a) structured byte strings
			b, cls := gateClass(rt)
			rec.Case(true, b, "gate/"+cls)
			if err := checkGate(b); err != nil {
				rec.Violation("c17gate", b, "", err)
				rt.Fatalf("C17 violation: %v", err)
			}
		case 2: // (a) every well-formed event of a history truncated to / extended from every length
			h := gen.History(rt, o)
			l, err := h.Lay()
			if err != nil {
				rt.Skip(err.Error())
			}
			evs := [][]byte{l.FDE[0], h.ArtificialRotate(h.FirstFile, 4)}
			for _, e := range l.Events {
				evs = append(evs, e.Bytes)
			}
			for _, e := range evs {
				if len(e) > 400 {
					continue
				}
				for cut := 0; cut <= len(e)+16; cut++ {
					var b []byte
					if cut <= len(e) {
						b = e[:cut]
					} else {
						b = append(append([]byte{}, e...), make([]byte, cut-len(e))...)
					}
					rec.Case(true, b, "gate/real-event-cut")
					if err := checkGate(b); err != nil {
						rec.Violation("c17gate", b, "", err)
						rt.Fatalf("C17 violation: %v", err)
					}
				}
			}
		default: // (b) a gate-failing packet at EVERY index of a generated history
			if thorough() && envShard == 3%envNShards && !slowInjectDone {
				// once per thorough run: the malformed (empty) packet arrives after the dump has been idle for more than 10 s
				slowInjectDone = true
				c := &InjectCase{H: seqHistory([]int{0, 1, 4, 0}, 2), At: 6, Sub: 3, DelayMs: 10500}
				rec.Case(true, c, "inject", "inject/after-10s-of-silence")
				journal("C17", "c17inject", c)
				if err := checkInject(c); err != nil {
					rec.Violation("c17inject", c, "", err)
					rt.Fatalf("C17 violation: %v", err)
				}
			}
			h := gen.History(rt, o)
			l, err := h.Lay()
			if err != nil {
				rt.Skip(err.Error())
			}
			payloads, _, _ := l.Served(h.FirstFile, h.Base)
			pacing := rapid.IntRange(0, 1).Draw(rt, "pacing")
			sub := rapid.IntRange(0, badClasses-1).Draw(rt, "bad_class")
			quiet := rapid.IntRange(0, 3).Draw(rt, "quiet_after") == 0
			ownID := rapid.IntRange(0, 3).Draw(rt, "replica_id_is_event_id") == 0
			emptyName := rapid.IntRange(0, 5).Draw(rt, "empty_start_name") == 0
			twin := 0
			if rapid.IntRange(0, 2).Draw(rt, "second_short_packet_behind") == 0 {
				twin = rapid.IntRange(1, 4).Draw(rt, "second_packet_len_class")
			}
			for at := 0; at <= len(payloads); at++ {
				c := &InjectCase{H: h, At: at, Sub: sub + at, Pacing: pacing, Quiet: quiet, OwnID: ownID, EmptyName: emptyName, Twin: twin}
				journal("C17", "c17inject", c)
				rec.Case(true, c, "inject", fmt.Sprintf("inject/class%d", c.Sub%badClasses), fmt.Sprintf("inject/pacing=%d", pacing))
				if twin > 0 {
					rec.Class("inject/second-short-packet-directly-behind")
				}
				if at == len(payloads)/2 {
					rec.Sample(c)
				}
				if err := checkInject(c); err != nil {
					rec.Violation("c17inject", c, "", err)
					rt.Fatalf("C17 violation: %v", err)
				}
			}
		}
	})
}

// FuzzC17 is the native coverage-guided supplement (thorough tier only).
func FuzzC17(f *testing.F) {
	f.Add([]byte{})
	f.Add(bytes.Repeat([]byte{0xff}, 19))
	h := seqHistory([]int{0, 4, 7, 8, 2}, 3)
	if l, err := h.Lay(); err == nil {
		f.Add(l.FDE[0])
		for _, e := range l.Events {
			f.Add(e.Bytes)
		}
	}
	f.Fuzz(func(t *testing.T, b []byte) {
		if err := checkGate(b); err != nil {
			t.Fatalf("C17 violation: %v", err)
		}
	})
}
