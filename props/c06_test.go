package props

import (
	"encoding/json"
	"fmt"
	"strings"
	"testing"

	"pgregory.net/rapid"
)

// judgeC06 applies the error-reporting table to the observations of a scenario.
func judgeC06(c *StopCase, o *StopObs) error {
	if !o.StreamReturned || len(o.ErrorResults) == 0 {
		return nil // termination and Error() liveness are C05's subject
	}
	first := o.ErrorResults[0]
	k := c.Fault.Kind
	switch k {
	case "handler_err", "handler_err_cancel", "mapper_err", "mapper_cols":
		// the library was handed the failure itself: a cancellation that happens to coincide does not excuse swallowing it
		if o.CauseFired && o.StreamErr == nil {
			return fmt.Errorf("the %s failure was returned to the library but Stream returned nil (caller cancelled: %v, Error() = %v)", k, o.CallerCancelled, first)
		}
		return nil
	case "unsupported", "invalid", "undecodable":
		// a cancelled parser may legitimately stop before it reads the offending event
		if rowsQueryFault(c.Fault) && o.StreamErr == nil && !o.CallerCancelled && o.Delivered == o.TotalTx && first == nil {
			// the replica skipped the informational event and went on to the master's EOF with everything
			// delivered: nothing failed, so there is nothing to report (had it stopped there, deliveries would be missing)
			return nil
		}
		if o.CauseFired && o.StreamErr == nil && !o.CallerCancelled {
			return fmt.Errorf("cause %s reached the library but Stream returned nil (Error() = %v)", k, first)
		}
		return nil
	}
	if o.StreamErr != nil || o.CallerCancelled || !o.CauseFired {
		return nil
	}
	// Stream returned nil and the caller did not cancel
	switch k {
	case "err":
		if first == nil {
			return fmt.Errorf("the master sent ERR %d %q, Stream returned nil and Error() returned nil: the master's error was swallowed", c.Fault.ErrCode, c.Fault.Msg)
		}
		if !strings.Contains(first.Error(), c.Fault.Msg) {
			return fmt.Errorf("the master sent ERR %d %q; Error() = %q does not carry the master's message", c.Fault.ErrCode, c.Fault.Msg, first.Error())
		}
	case "fin", "rst", "short", "outofseq":
		if first == nil {
			return fmt.Errorf("the connection failed (%s at packet %d), Stream returned nil and Error() returned nil: a lost connection was reported as a clean end", k, c.Fault.At)
		}
	case "refuse", "err_handshake", "err_query", "dump_unsendable":
		if first == nil {
			return fmt.Errorf("the attempt failed while connecting (%s) but Stream and Error() both returned nil", k)
		}
	}
	return nil
}

func init() {
	registerReplay("c06", func(raw json.RawMessage) error {
		var c StopCase
		if err := json.Unmarshal(raw, &c); err != nil {
			return err
		}
		o := runStop(&c)
		return judgeC06(&c, o)
	})
}

func TestC06(t *testing.T) {
	rec := recorder("C06")
	defer rec.Flush(t)
	o := stopHistOpt()
	var kinds []string
	for _, k := range stopKinds {
		if k != "cancel_dial" && k != "cancel_handshake" && k != "cancel_query" && k != "handler_panic" {
			kinds = append(kinds, k)
		}
	}
	// weight the causes the property is about
	kinds = append(kinds, "err", "err", "err", "fin", "rst", "short", "outofseq", "handler_err", "handler_err_cancel", "unsupported", "invalid", "undecodable", "mapper_err", "mapper_cols")
	rapidCheck(t, func(rt *rapid.T) {
		c := drawStop(rt, o, kinds)
		c.ErrLater = false // C06 judges the first Error() call made right after Stream returned
		slowLog := false
		switch c.Fault.Kind {
		case "err", "fin", "rst", "short", "outofseq":
			// the application's logger is slow (a remote sink, a full pipe): every error-level line the reader
			// goroutine writes takes 1.2 s.  What Stream and Error() report must not depend on it.
			if rapid.IntRange(0, 19).Draw(rt, "error_log_line_takes_1200ms") == 0 {
				c.PerturbWho, c.PerturbLevel, c.PerturbMicros = 1, 1, 1200000
				slowLog = true
			}
		}
		journal("C06", "c06", c)
		obs := runStop(c)
		transport := false
		switch c.Fault.Kind {
		case "err", "fin", "rst", "short", "outofseq", "eof":
			transport = true
		}
		nt := transport && obs.Delivered >= 1 && obs.CauseFired
		cls := []string{"cause/" + c.Fault.Kind, fmt.Sprintf("pacing=%d", c.Pacing)}
		if obs.CauseFired {
			cls = append(cls, "cause-fired/"+c.Fault.Kind)
		}
		if obs.StreamErr == nil {
			cls = append(cls, "stream-nil/"+c.Fault.Kind)
			if len(obs.ErrorResults) > 0 && obs.ErrorResults[0] == nil {
				cls = append(cls, "stream-nil+error-nil/"+c.Fault.Kind)
			}
		}
		if obs.CallerCancelled {
			cls = append(cls, "caller-cancelled")
		}
		if slowLog {
			cls = append(cls, "slow-logger/error-lines-of-the-reader-take-1.2s")
		}
		rec.Case(nt, c, cls...)
		if nt {
			rec.Sample(c)
		}
		if obs.Inconclusive != "" {
			rec.Class("inconclusive")
		}
		if err := judgeC06(c, obs); err != nil {
			rec.Violation("c06", c, "", err)
			rt.Fatalf("C06 violation: %v", err)
		}
	})
}
