package props

import (
	"fmt"
	"testing"

	"pgregory.net/rapid"

	"verif/gen"
	"verif/hist"
	"verif/refenc"
)

func hasOpaque(n *refenc.JNode) bool {
	switch n.K {
	case refenc.JDate, refenc.JTime, refenc.JDateTime, refenc.JDecimal:
		return true
	}
	for _, k := range n.Kids {
		if hasOpaque(k) {
			return true
		}
	}
	return false
}

func negTime(n *refenc.JNode) bool {
	if n.K == refenc.JTime && n.Neg {
		return true
	}
	for _, k := range n.Kids {
		if negTime(k) {
			return true
		}
	}
	return false
}

func c14Property(rec *Recorder) func(*rapid.T) {
	return func(rt *rapid.T) {
		col := hist.Column{Type: refenc.TJSON, Len: 4}
		doc := gen.JSONDoc(rt, limits())
		c := CellCase{Col: col, Val: hist.Value{J: doc}, Pre: rapid.IntRange(0, 3).Draw(rt, "pre"), Post: rapid.IntRange(0, 3).Draw(rt, "post")}
		var st refenc.JSONStats
		bin := refenc.JSONBinary(doc, &st)
		large := st.LargeContainers > 0
		opaque := hasOpaque(doc)
		nt := st.Depth >= 2 || large || opaque
		cls := []string{fmt.Sprintf("depth=%d", st.Depth)}
		if large {
			cls = append(cls, "large-format")
		}
		if st.SmallInLarge > 0 {
			cls = append(cls, "small-inside-large")
		}
		if len(bin) >= 65536 {
			cls = append(cls, ">=64KiB")
		}
		if opaque {
			cls = append(cls, "opaque-scalar")
		}
		if negTime(doc) {
			cls = append(cls, "negative-time")
		}
		if st.Inlined > 0 {
			cls = append(cls, "inlined-values")
		}
		if st.OutOfLine > 0 {
			cls = append(cls, "out-of-line-values")
		}
		if doc.K != refenc.JObject && doc.K != refenc.JArray {
			cls = append(cls, "top-level-scalar")
		}
		rec.Case(nt, c, cls...)
		if nt && len(bin) < 2000 {
			rec.Sample(c)
		}
		if err := checkCell(c); err != nil {
			cellViolation(rec, c, err)
			rt.Fatalf("C14 violation: %v", err)
		}
	}
}

func TestC14(t *testing.T) {
	rec := recorder("C14")
	defer rec.Flush(t)
	rapidCheck(t, c14Property(rec))
}

// FuzzC14 drives the same property with coverage-guided mutation of rapid's
// bit stream (thorough tier only).
func FuzzC14(f *testing.F) {
	rec := recorder("C14fuzz")
	f.Fuzz(rapid.MakeFuzz(c14Property(rec)))
}
