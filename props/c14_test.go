package props

import (
	"encoding/json"
	"fmt"
	"runtime"
	"testing"

	"github.com/Breeze0806/gobinlog/replication"
	"pgregory.net/rapid"

	"verif/gen"
	"verif/hist"
	"verif/refenc"
)

func hasOpaque(n *refenc.JNode) bool {
	switch n.K {
	case refenc.JDate, refenc.JTime, refenc.JDateTime, refenc.JDecimal:
		return true
	}
	for _, k := range n.Kids {
		if hasOpaque(k) {
			return true
		}
	}
	return false
}

func negTime(n *refenc.JNode) bool {
	if n.K == refenc.JTime && n.Neg {
		return true
	}
	for _, k := range n.Kids {
		if negTime(k) {
			return true
		}
	}
	return false
}

func c14Property(rec *Recorder) func(*rapid.T) {
	return func(rt *rapid.T) {
		switch rapid.IntRange(0, 24).Draw(rt, "part_special") {
		case 0:
			parallelPart(rt, rec, "C14", []struct{ T, Real byte }{{refenc.TJSON, 0}})
			return
		case 1:
			reannouncePart(rt, rec, "C14")
			return
		case 2, 3:
			// a document the decoder must REJECT (an opaque value of a type it does not support, after
			// part of the document was already rendered) is decoded first; its error is not judged,
			// but the next valid document must be rendered correctly all the same
			cell := refenc.LenPrefixed(poisonJSON(), 4)
			guard(func() error { _, _, e := replication.CellBytes(cell, 0, refenc.TJSON, 4, false); return e })
			rec.Class("after-rejected-document")
		}
		col := hist.Column{Type: refenc.TJSON, Len: 4}
		doc := gen.JSONDoc(rt, limits())
		c := CellCase{Col: col, Val: hist.Value{J: doc}, Pre: rapid.IntRange(0, 3).Draw(rt, "pre"), Post: rapid.IntRange(0, 3).Draw(rt, "post")}
		var st refenc.JSONStats
		bin := refenc.JSONBinary(doc, &st)
		large := st.LargeContainers > 0
		opaque := hasOpaque(doc)
		nt := st.Depth >= 2 || large || opaque
		cls := []string{fmt.Sprintf("depth=%d", st.Depth)}
		if large {
			cls = append(cls, "large-format")
		}
		if st.SmallInLarge > 0 {
			cls = append(cls, "small-inside-large")
		}
		if len(bin) >= 65536 {
			cls = append(cls, ">=64KiB")
		}
		if opaque {
			cls = append(cls, "opaque-scalar")
		}
		if negTime(doc) {
			cls = append(cls, "negative-time")
		}
		if st.Inlined > 0 {
			cls = append(cls, "inlined-values")
		}
		if st.OutOfLine > 0 {
			cls = append(cls, "out-of-line-values")
		}
		if doc.K != refenc.JObject && doc.K != refenc.JArray {
			cls = append(cls, "top-level-scalar")
		}
		rec.Case(nt, c, cls...)
		if nt && len(bin) < 2000 {
			rec.Sample(c)
		}
		if err := checkCell(c); err != nil {
			cellViolation(rec, c, err)
			rt.Fatalf("C14 violation: %v", err)
		}
		// the caller reuses its row buffer: a different document of the SAME binary length is written over
		// the first one in place and decoded from the same slice
		if tw := tweakJSON(doc); tw != nil {
			b2 := refenc.JSONBinary(tw, nil)
			if len(b2) == len(bin) {
				// first the tweaked document (never seen before), then the original one written over it
				buf := refenc.LenPrefixed(b2, 4)
				var out1, out2 []byte
				err := guard(func() (e error) {
					out1, _, e = replication.CellBytes(buf, 0, refenc.TJSON, 4, false)
					if e != nil {
						return e
					}
					out1 = append([]byte{}, out1...)
					copy(buf[4:], bin)
					out2, _, e = replication.CellBytes(buf, 0, refenc.TJSON, 4, false)
					return e
				})
				rec.Class("same-length-overwrite")
				if err == nil {
					err = hist.CheckJSONText(out1, tw)
				}
				if err == nil {
					err = hist.CheckJSONText(out2, doc)
				}
				if err != nil {
					c2 := CellSeqCase{Prev: CellCase{Col: col, Val: hist.Value{J: tw}}, Cur: c}
					err = fmt.Errorf("second document written over the first in the caller's buffer: %v", err)
					rec.Violation("c14reuse", c2, "", err)
					rt.Fatalf("C14 violation: %v", err)
				}
			}
		}
	}
}

// poisonJSON is a small array [ 'left-over', 7, <opaque value of type BIT> ]: the third
// element is of a kind the decoder documents as unsupported.
func poisonJSON() []byte {
	// small array: count(2) size(2) 3 value entries (type(1)+offset(2)) then values
	str := append([]byte{9}, "left-over"...) // varlen 9 + bytes
	opq := []byte{16, 2, 0xCA, 0xFE}         // field type BIT(16), varlen 2, two bytes
	hdr := 4 + 3*3
	b := make([]byte, hdr)
	b[0] = 3
	put := func(at, v int) { b[at], b[at+1] = byte(v), byte(v>>8) }
	b[4], b[7], b[10] = 12, 5, 15 // string, int16 (inlined), opaque
	put(5, hdr)
	put(8, 7)
	put(11, hdr+len(str))
	b = append(append(b, str...), opq...)
	put(2, len(b))
	return append([]byte{2}, b...)
}

// tweakJSON returns a copy of the document in which every fixed-width scalar has another
// value of the same width (nil if nothing could be changed).
func tweakJSON(n *refenc.JNode) *refenc.JNode {
	changed := false
	var cp func(n *refenc.JNode) *refenc.JNode
	cp = func(n *refenc.JNode) *refenc.JNode {
		m := *n
		m.Kids = nil
		for _, k := range n.Kids {
			m.Kids = append(m.Kids, cp(k))
		}
		switch n.K {
		case refenc.JTrue:
			m.K, changed = refenc.JFalse, true
		case refenc.JFalse:
			m.K, changed = refenc.JTrue, true
		case refenc.JInt:
			for _, d := range []int64{1, -1} {
				v := n.I + d
				if (d > 0 && v > n.I || d < 0 && v < n.I) && intClass(v) == intClass(n.I) {
					m.I, changed = v, true
					break
				}
			}
		case refenc.JUint:
			for _, v := range []uint64{n.U + 1, n.U - 1} {
				if uintClass(v) == uintClass(n.U) && v != n.U && (v == n.U+1 && v > n.U || v == n.U-1 && v < n.U) {
					m.U, changed = v, true
					break
				}
			}
		case refenc.JDouble:
			if v := n.U ^ 1; v&0x7ff0000000000000 != 0x7ff0000000000000 {
				m.U, changed = v, true
			}
		}
		return &m
	}
	out := cp(n)
	if !changed {
		return nil
	}
	return out
}

func intClass(v int64) int {
	switch {
	case v >= -32768 && v <= 32767:
		return 16
	case v >= -2147483648 && v <= 2147483647:
		return 32
	}
	return 64
}

func uintClass(v uint64) int {
	switch {
	case v <= 65535:
		return 16
	case v <= 4294967295:
		return 32
	}
	return 64
}

func TestC14(t *testing.T) {
	rec := recorder("C14")
	defer rec.Flush(t)
	// documents of more than 2^24 bytes (offsets and sizes that need the fourth byte of the large format):
	// a 17 MB string in front of, and between, other members
	if envShard == 2%envNShards {
		big := &refenc.JNode{K: refenc.JString, S: refenc.Blob{K: 7, S: 17, N: 17<<20 + 5}}
		one := &refenc.JNode{K: refenc.JInt, I: -70000}
		tail := &refenc.JNode{K: refenc.JString, S: refenc.Lit([]byte("tail"))}
		inner := &refenc.JNode{K: refenc.JObject, Keys: []string{"a", "zz"}, Kids: []*refenc.JNode{one, tail}}
		for i, doc := range []*refenc.JNode{
			{K: refenc.JArray, Kids: []*refenc.JNode{big, one, tail, inner}},
			{K: refenc.JObject, Keys: []string{"a", "big", "z"}, Kids: []*refenc.JNode{inner, big, tail}},
		} {
			c := CellCase{Col: hist.Column{Type: refenc.TJSON, Len: 4}, Val: hist.Value{J: doc}, Pre: 1, Post: 1}
			rec.Case(true, fmt.Sprintf("huge-document-%d", i), "document>16MiB")
			if err := checkCell(c); err != nil {
				rec.Violation("cell", fmt.Sprintf("huge JSON document %d (a 17 MiB string among other members)", i), "", err)
				t.Errorf("C14 violation: %v", err)
				return
			}
		}
		runtime.GC()
	}
	rapidCheck(t, c14Property(rec))
}

// FuzzC14 drives the same property with coverage-guided mutation of rapid's
// bit stream (thorough tier only).
func FuzzC14(f *testing.F) {
	rec := recorder("C14fuzz")
	f.Fuzz(rapid.MakeFuzz(c14Property(rec)))
}

func init() {
	registerReplay("c14reuse", func(raw json.RawMessage) error {
		var c CellSeqCase
		if err := json.Unmarshal(raw, &c); err != nil {
			return err
		}
		b1 := refenc.JSONBinary(c.Prev.Val.J, nil)
		b2 := refenc.JSONBinary(c.Cur.Val.J, nil)
		if len(b1) != len(b2) {
			return nil
		}
		buf := refenc.LenPrefixed(b1, 4)
		if _, _, err := replication.CellBytes(buf, 0, refenc.TJSON, 4, false); err != nil {
			return err
		}
		copy(buf[4:], b2)
		out, _, err := replication.CellBytes(buf, 0, refenc.TJSON, 4, false)
		if err != nil {
			return err
		}
		return hist.CheckJSONText(out, c.Cur.Val.J)
	})
}
