package props

import (
	"encoding/json"
	"fmt"
	"testing"

	"pgregory.net/rapid"

	"verif/gen"
	"verif/hist"
)

// ResumeCase: a history, a start boundary and which delivered transactions are
// used as resume points (all when Resume is nil).
type ResumeCase struct {
	E      E2ECase
	Resume []int `json:",omitempty"`
}

func checkC03(c *ResumeCase) (int, error) {
	stA, exp, l, err := runE2E(&c.E)
	if err != nil {
		return 0, err
	}
	// labels equal the reference coordinates (which embody the chain law) ...
	if err := compareTxs(stA.got, exp, true); err != nil {
		return 0, fmt.Errorf("run A: %v [stream err: %v]", err, stA.streamErr)
	}
	// ... and the chain law is re-checked on the delivered labels themselves
	_, start, _, _ := c.E.layout()
	prev := start
	for k, tx := range stA.got {
		if !posEq(tx.NowPosition, prev) {
			// allowed only if a rotation intervened: then the start label is the rotation target
			if !(tx.NowPosition.Offset == 4 && l.FileIndex(tx.NowPosition.Filename) > l.FileIndex(prev.File)) {
				return 0, fmt.Errorf("run A: tx %d starts at %+v, previous ended at %+v and no rotation explains it", k, tx.NowPosition, prev)
			}
		}
		prev = hist.Pos{File: tx.NextPosition.Filename, Off: tx.NextPosition.Offset}
	}
	resume := c.Resume
	if resume == nil {
		for k := range stA.got {
			resume = append(resume, k)
		}
	}
	runs := 0
	for _, k := range resume {
		if k >= len(stA.got) {
			continue
		}
		at := stA.got[k].NextPosition
		ss, err := newSession(c.E.H.Tables, 77, hist.Pos{File: at.Filename, Off: at.Offset})
		if err != nil {
			return runs, fmt.Errorf("harness: %v", err)
		}
		stB := ss.run(attempt{l: l, pacing: c.E.Pacing})
		stB.drainLib()
		if err := stB.panicErr(); err != nil {
			return runs, fmt.Errorf("resume at tx %d: %v", k, err)
		}
		ss.close()
		runs++
		req, ok := stB.dump()
		if !ok {
			return runs, fmt.Errorf("resume at tx %d (%+v): no dump request reached the master [stream err: %v]", k, at, stB.streamErr)
		}
		if req.File != at.Filename || int64(req.Pos) != at.Offset {
			return runs, fmt.Errorf("resume at tx %d: dump request asks for %q:%d, the end label is %+v", k, req.File, req.Pos, at)
		}
		if !stB.served {
			return runs, fmt.Errorf("resume at tx %d: the end label %+v is not an event boundary of the binlog (master answered with an error)", k, at)
		}
		rest := stA.got[k+1:]
		if len(stB.got) != len(rest) {
			return runs, fmt.Errorf("resume at tx %d (%+v): %d transactions delivered, the remaining history has %d", k, at, len(stB.got), len(rest))
		}
		for i := range rest {
			if !txEqual(stB.got[i], rest[i]) {
				a, _ := json.Marshal(rest[i])
				b, _ := json.Marshal(stB.got[i])
				return runs, fmt.Errorf("resume at tx %d: transaction %d differs from the one of the uninterrupted stream:\n first: %.600s\n resumed: %.600s", k, k+1+i, a, b)
			}
		}
		if err := compareTxs(stB.got, exp[k+1:], true); err != nil {
			return runs, fmt.Errorf("resume at tx %d: %v", k, err)
		}
	}
	return runs, nil
}

func init() {
	registerReplay("c03", func(raw json.RawMessage) error {
		var c ResumeCase
		if err := json.Unmarshal(raw, &c); err != nil {
			return err
		}
		_, err := checkC03(&c)
		return err
	})
}

func TestC03(t *testing.T) {
	rec := recorder("C03")
	defer rec.Flush(t)
	o := gen.DefaultHistOpt(limits(), thorough())
	o.MaxCols = 6
	o.MaxRows = 3
	o.MaxItems = 3
	o.Col = gen.ColumnOpt{NoHeavy: true}
	rapidCheck(t, func(rt *rapid.T) {
		c := &ResumeCase{E: *drawE2E(rt, o)}
		l, start, su, err := c.E.layout()
		if err != nil {
			rt.Skip(err.Error())
		}
		exp := l.Expected(start, su)
		if len(exp) > 8 {
			// sample 8 resume points
			seen := map[int]bool{}
			for len(c.Resume) < 8 {
				k := rapid.IntRange(0, len(exp)-1).Draw(rt, "resume_k")
				if !seen[k] {
					seen[k] = true
					c.Resume = append(c.Resume, k)
				}
			}
		}
		rot := 0
		for i := su; i < len(c.E.H.Units); i++ {
			if c.E.H.Units[i].Kind == hist.URotate || c.E.H.Units[i].Kind == hist.UFileEnd {
				rot++
			}
		}
		big := false
		for _, tx := range exp {
			big = big || tx.Next.Off > 1<<31
		}
		nt := (len(exp) >= 3 && rot >= 1) || big
		cls := []string{fmt.Sprintf("rotations=%d", rot)}
		if big {
			cls = append(cls, "offset>2^31")
		}
		if len(exp) >= 3 {
			cls = append(cls, "tx>=3")
		}
		rec.Case(nt, c, cls...)
		if nt {
			rec.Sample(c)
		}
		journal("C03", "c03", c)
		runs, err := checkC03(c)
		rec.Class("resume-streams")
		for i := 1; i < runs; i++ {
			rec.Class("resume-streams")
		}
		if err != nil {
			rec.Violation("c03", c, "", err)
			rt.Fatalf("C03 violation: %v", err)
		}
	})
}
