package props

import (
	"strings"
	"testing"

	"pgregory.net/rapid"

	"verif/gen"
	"verif/hist"
	"verif/refenc"
)

// decimalPatterns enumerates the deterministic digit patterns of the design for
// one (p,s): all zeros, all nines, single digits at the edges, each 9-digit
// group non-zero / zero in turn.
func decimalPatterns(p, s int) []string {
	zero := strings.Repeat("0", p)
	set := func(base string, i int, c byte) string {
		b := []byte(base)
		b[i] = c
		return string(b)
	}
	out := []string{zero, strings.Repeat("9", p)}
	intg := p - s
	out = append(out, set(zero, 0, '1'), set(zero, p-1, '5'))
	if intg > 0 {
		out = append(out, set(zero, intg-1, '7'))
	}
	if s > 0 {
		out = append(out, set(zero, intg, '4'))
	}
	// groups aligned to the decimal point
	var groups [][2]int
	for e := intg; e > 0; e -= 9 {
		st := e - 9
		if st < 0 {
			st = 0
		}
		groups = append(groups, [2]int{st, e})
	}
	for st := intg; st < p; st += 9 {
		e := st + 9
		if e > p {
			e = p
		}
		groups = append(groups, [2]int{st, e})
	}
	for _, g := range groups {
		a := []byte(zero)
		b := []byte(strings.Repeat("3", p))
		for i := g[0]; i < g[1]; i++ {
			a[i] = '8'
			b[i] = '0'
		}
		// a group holding a small value (leading zeros inside the group)
		c := []byte(zero)
		c[g[1]-1] = '6'
		out = append(out, string(a), string(b), string(c))
	}
	return out
}

func TestC11(t *testing.T) {
	rec := recorder("C11")
	defer rec.Flush(t)
	failed := 0
	// all valid (p,s), sharded by pair index
	idx := 0
	for p := 1; p <= 65; p++ {
		for s := 0; s <= p && s <= 30; s++ {
			idx++
			if idx%envNShards != envShard {
				continue
			}
			col := hist.Column{Type: refenc.TNewDecimal, P: p, S: s}
			for _, dig := range decimalPatterns(p, s) {
				for _, neg := range []bool{false, true} {
					if neg && strings.Trim(dig, "0") == "" {
						continue
					}
					c := CellCase{Col: col, Val: hist.Value{Dig: dig, Neg: neg}, Pre: p % 3, Post: 2}
					rec.Case(true, c, "pattern")
					if err := checkCell(c); err != nil && failed < 5 {
						failed++
						path := cellViolation(rec, c, err)
						t.Errorf("C11 violation: %v (replay %s)", err, path)
					}
				}
			}
		}
	}
	rec.MarkExhaustive("all 1,580 valid (precision, scale) pairs, each with the deterministic digit patterns")
	if failed > 0 {
		return
	}
	rapidCheck(t, func(rt *rapid.T) {
		switch rapid.IntRange(0, 24).Draw(rt, "part_special") {
		case 0:
			parallelPart(rt, rec, "C11", []struct{ T, Real byte }{{refenc.TNewDecimal, 0}})
			return
		case 1:
			reannouncePart(rt, rec, "C11")
			return
		}
		col := gen.ColumnOf(rt, refenc.TNewDecimal, 0, gen.ColumnOpt{})
		if rapid.Bool().Draw(rt, "uniform_ps") {
			col.P = rapid.IntRange(1, 65).Draw(rt, "p")
			m := 30
			if col.P < m {
				m = col.P
			}
			col.S = rapid.IntRange(0, m).Draw(rt, "s")
		}
		c := CellCase{Col: col, Val: gen.ValueOf(rt, col, limits()), Pre: rapid.IntRange(0, 4).Draw(rt, "pre"), Post: rapid.IntRange(0, 4).Draw(rt, "post")}
		rec.Case(true, c, "random")
		rec.Sample(c)
		if err := checkCell(c); err != nil {
			cellViolation(rec, c, err)
			rt.Fatalf("C11 violation: %v", err)
		}
	})
}

// FuzzC11 is the native coverage-guided supplement of the generated part (thorough tier only).
func FuzzC11(f *testing.F) { fuzzProperty(f, TestC11) }
