// Package sched observes goroutine states through runtime.Stack so that the
// harness can tell whether the library's goroutines are blocked, where, and
// whether any of them is left behind.
package sched

import (
	"regexp"
	"runtime"
	"strconv"
	"strings"
	"time"
)

// G is one goroutine as seen in a stack dump.
type G struct {
	ID      int
	State   string // "IO wait", "select", "chan receive", "running", ...
	Frames  []string
	Creator string // function that created it ("" for main / unknown)
	Parent  int
}

var hdrRe = regexp.MustCompile(`^goroutine (\d+) \[([^\]]+)\]:$`)
var createdRe = regexp.MustCompile(`^created by (.+?)(?: in goroutine (\d+))?$`)

// Probe returns all goroutines.
func Probe() []G {
	buf := make([]byte, 1<<18)
	for {
		n := runtime.Stack(buf, true)
		if n < len(buf) {
			buf = buf[:n]
			break
		}
		buf = make([]byte, 2*len(buf))
	}
	var out []G
	cur := -1
	for _, line := range strings.Split(string(buf), "\n") {
		if m := hdrRe.FindStringSubmatch(line); m != nil {
			id, _ := strconv.Atoi(m[1])
			st := m[2]
			if i := strings.IndexByte(st, ','); i >= 0 {
				st = st[:i] // drop ", 2 minutes" and ", locked to thread"
			}
			out = append(out, G{ID: id, State: st})
			cur = len(out) - 1
			continue
		}
		if cur < 0 || line == "" {
			continue
		}
		if m := createdRe.FindStringSubmatch(line); m != nil {
			out[cur].Creator = m[1]
			if m[2] != "" {
				out[cur].Parent, _ = strconv.Atoi(m[2])
			}
			continue
		}
		if !strings.HasPrefix(line, "\t") {
			f := line
			if i := strings.LastIndexByte(f, '('); i > 0 {
				f = f[:i]
			}
			out[cur].Frames = append(out[cur].Frames, f)
		}
	}
	return out
}

// Self returns the calling goroutine's id.
func Self() int {
	var b [64]byte
	n := runtime.Stack(b[:], false)
	f := strings.Fields(string(b[:n]))
	id, _ := strconv.Atoi(f[1])
	return id
}

// LibPrefixes are the package paths whose goroutines count as "library".
var LibPrefixes = []string{"github.com/Breeze0806/gobinlog", "github.com/Breeze0806/mysql"}

// IsLib reports whether g was created by library code.
func IsLib(g G) bool {
	for _, p := range LibPrefixes {
		if strings.HasPrefix(g.Creator, p+".") || strings.HasPrefix(g.Creator, p+"/") {
			return true
		}
	}
	return false
}

// Blocked reports whether a state is a parked state.
func Blocked(state string) bool {
	switch state {
	case "IO wait", "select", "chan receive", "chan send", "chan receive (nil chan)", "chan send (nil chan)", "select (no cases)",
		"semacquire", "sync.Mutex.Lock", "sync.RWMutex.Lock", "sync.RWMutex.RLock", "sync.Cond.Wait", "sleep", "sync.WaitGroup.Wait":
		return true
	}
	return false
}

// IDs returns the set of goroutine ids.
func IDs(gs []G) map[int]bool {
	m := map[int]bool{}
	for _, g := range gs {
		m[g.ID] = true
	}
	return m
}

// Lib returns the library goroutines not in the baseline set.
func Lib(gs []G, baseline map[int]bool) []G { return LibOwned(gs, baseline, nil) }

// LibOwned is Lib plus the goroutines that the standard library started on the library's behalf: created
// by code outside the harness, inside one of the owner goroutines (the goroutine that runs Stream) or
// inside a library goroutine that is still alive - a context watcher, a timer, a dialer.
func LibOwned(gs []G, baseline map[int]bool, owners map[int]bool) []G {
	lib := map[int]bool{}
	for id := range owners {
		lib[id] = true
	}
	for _, g := range gs {
		if !baseline[g.ID] && IsLib(g) {
			lib[g.ID] = true
		}
	}
	var out []G
	for _, g := range gs {
		if baseline[g.ID] {
			continue
		}
		switch {
		case IsLib(g):
			out = append(out, g)
		case owners != nil && !owners[g.ID] && g.Parent != 0 && lib[g.Parent] && g.Creator != "" &&
			!strings.HasPrefix(g.Creator, "verif/") && !strings.HasPrefix(g.Creator, "testing."):
			out = append(out, g)
		}
	}
	return out
}

// Find returns the goroutine with the given id.
func Find(gs []G, id int) (G, bool) {
	for _, g := range gs {
		if g.ID == id {
			return g, true
		}
	}
	return G{}, false
}

// HasFrame reports whether any frame of g contains sub.
func HasFrame(g G, sub string) bool {
	for _, f := range g.Frames {
		if strings.Contains(f, sub) {
			return true
		}
	}
	return false
}

// WaitNoLib waits until no library goroutine outside the baseline remains, up
// to the bound; it returns the survivors of the last probe.
func WaitNoLib(baseline map[int]bool, bound time.Duration, owners ...int) []G {
	var own map[int]bool
	if len(owners) > 0 {
		own = map[int]bool{}
		for _, id := range owners {
			own[id] = true
		}
	}
	deadline := time.Now().Add(bound)
	sleep := 50 * time.Microsecond
	for {
		left := LibOwned(Probe(), baseline, own)
		if len(left) == 0 || time.Now().After(deadline) {
			return left
		}
		time.Sleep(sleep)
		if sleep < 5*time.Millisecond {
			sleep *= 2
		}
	}
}
