"""Per-property check configuration for bin/vcheck.

checks: (quick, thorough) rapid case counts per shard.  timeout: wall limits (s).
"""

TRUST = [
    "Go runtime and standard library (strconv, time, encoding/json, hash/crc32), pgregory.net/rapid v1.3.0",
    "the independent encoder verif/refenc and the reference model verif/hist (written from the MySQL formats, never from the library)",
]

CHECKS = {
    "C10": {
        "test": "TestC10", "level": "exploration", "checks": (2500, 30000), "timeout": (600, 3600), "fuzz": [("FuzzC10", "45s")],
        "rule": "exhaustive sweeps of all 2^8/2^16/2^24 raw integer values in both signedness modes (2^32 in the thorough tier) and all 256 YEAR bytes "
                "through CellBytes vs. the arithmetic two's-complement reading; plus rapid-generated (type, metadata, value, mapper signedness, surrounding bytes) "
                "cases for 32/64-bit integers (boundaries + uniform), FLOAT/DOUBLE bit patterns (zeros, subnormals, extremes, powers of 2 and 10, uniform finite), "
                "BIT(1..64), ENUM 1-2 bytes, SET 1..8 bytes (inside TypeString and as direct codes). Every case is non-trivial (each decodes a value); "
                "distinct = enumerated raw values (distinct by construction) + distinct hashes of generated cases",
        "assumptions": TRUST + ["signedness is whatever the caller passes as isUnSignedInt (end-to-end mapper plumbing is covered by C01)"],
    },
    "C11": {
        "test": "TestC11", "level": "exploration", "checks": (3000, 60000), "timeout": (600, 3600), "fuzz": [("FuzzC11", "45s")],
        "rule": "all 1,580 valid (precision, scale) pairs x deterministic digit patterns (all zeros, all nines, single digits at the edges, each 9-digit group "
                "non-zero / zero / small in turn) x sign, then rapid-generated (p, s, digits, sign, surrounding bytes); encoded by an independent decimal2bin, decoded by "
                "CellBytes, compared with the canonical text built from the digit string; consumed length must equal decimal_bin_size(p,s). Every case is non-trivial; "
                "distinct = distinct (p, s, digits, sign, offsets) hashes",
        "assumptions": TRUST + ["negative zero is not representable and is never generated"],
    },
    "C12": {
        "test": "TestC12", "level": "exploration", "checks": (4000, 60000), "timeout": (600, 3600), "fuzz": [("FuzzC12", "45s")],
        "shard_env": [{"TZ": "UTC"}, {"TZ": "Asia/Shanghai"}, {"TZ": "America/New_York"}, {"TZ": "Australia/Lord_Howe"}],
        "rule": "exhaustive sweep of all 2^24 raw values of the 3-byte DATE and TIME encodings (checked when they denote a valid value: month<=12, year<=9999; "
                "|h|<=838, m,s<=59) vs. text built from the broken-down fields; rapid-generated old DATETIME / TIMESTAMP and TIMESTAMP2 / DATETIME2 / TIME2 values for "
                "fsp 0..6 (boundaries + uniform, both TIME signs via the documented fraction-complement encoding); shards run under TZ=UTC, Asia/Shanghai, "
                "America/New_York and Australia/Lord_Howe and TIMESTAMP text is computed from the zone offset with an own civil-date routine. Every case is non-trivial; "
                "distinct = enumerated valid raw values + distinct (case, zone) hashes",
        "assumptions": TRUST + ["the zone database of the sandbox / embedded time/tzdata gives the UTC offset of an instant", "seconds==0 denotes the zero timestamp and is only generated with a zero fraction"],
    },
    "C01": {
        "test": "TestC01", "level": "exploration", "checks": (300, 1000), "timeout": (900, 7200),
        "rule": "rapid-generated row-based histories (config x 1..4(8) tables x every emitted column type with its metadata domain x units {tx/XID, tx/COMMIT, rolled-back tx, DDL, "
                "autocommitted rows, statement DML, rotations, GTID / anonymous-GTID / previous-GTIDs / heartbeat / unknown events and statements} x full / key-only / random "
                "row images x NULLs) laid out by the independent encoder, served over loopback TCP by the simulated master from a drawn unit boundary to a fresh Streamer "
                "through the unmodified driver; the handler's deliveries are compared field by field with the reference model computed from the logical history. "
                "Non-trivial = the expectation contains a rows event with >= 1 row and >= 2 columns; distinct = distinct case hashes among those",
        "assumptions": TRUST + ["the simulated master follows Binlog_sender (artificial ROTATE, format description, events from the requested offset, next file after a real ROTATE, EOF at the end)",
                                "how Stream/Error() end at the EOF is judged by C05/C06, not here"],
    },
    "C02": {
        "test": "TestC02", "level": "exploration", "checks": (150, 600), "timeout": (900, 7200),
        "rule": "(1) all 2^5+2^6+2^8 casings of begin/commit/rollback against GetStatementCategory; (2) EXHAUSTIVE: every sequence of length <= 3 (thorough: <= 4) over the "
                "14-symbol unit alphabet {tx/XID, tx/COMMIT, rolled-back tx, tx with ignorable events and statements inside, DDL, autocommitted rows, statement DML, rotation, "
                "GTID, anonymous GTID, previous-GTIDs, heartbeat, unknown event, unknown statement}, each streamed end to end (config variant and pacing vary with the index, "
                "half lock-step); (3) rapid-generated histories of up to 12 commit units with ignorable units between and inside transactions. Oracle: grouping equals the "
                "reference model, uniquely tagged changes appear exactly once and in order, and no transaction reaches the handler before the master had begun to write its "
                "commit event. Non-trivial = >= 2 commit points and >= 1 other unit after the first; distinct = distinct case hashes among those",
        "assumptions": TRUST + ["only statements whose first keyword is followed by a space or the end of the text are generated (what MySQL logs); nested BEGIN and ROLLBACK TO SAVEPOINT are outside the property",
                                "an autocommitted row change is one table map plus one rows event"],
    },
    "C03": {
        "test": "TestC03", "level": "exploration", "checks": (150, 450), "timeout": (900, 7200),
        "rule": "rapid-generated histories with 0..2 rotations and first-file offsets up to 2^32-1; run A streams from a drawn boundary; then for every delivered transaction k "
                "(8 sampled when more) a NEW Streamer is started at A[k].NextPosition. Oracle: A's labels equal the reference coordinates and obey the chain law; each resumed "
                "stream's dump request carries exactly the label, the label is an event boundary, and its deliveries are deep-equal to A[k+1:] (and equal the model). "
                "Non-trivial = (>= 3 transactions and >= 1 rotation) or an offset above 2^31; distinct = distinct case hashes among those",
        "assumptions": TRUST + ["a file's served region may start at a large offset (indistinguishable, for a replica that starts there, from a long file)"],
    },
    "C07": {
        "test": "TestC07", "level": "exploration", "checks": (400, 3000), "timeout": (600, 3600),
        "rule": "rapid-generated (server id in {1, 2^31-1, 2^31, 2^32-1, random}, binlog file name of 1..200 bytes incl. UTF-8 and spaces, offset in {4, 2^31-1, 2^31+1, "
                "2^32-1-size, random}) x 1..4 attempts on one streamer (each failing attempt is cut by a connection close after 0..2 further commits). Oracle: the command log "
                "decoded by the simulated master for every attempt: SET @master_binlog_checksum before the dump, exactly one COM_BINLOG_DUMP, no NON_BLOCK flag, configured "
                "server id, and file/offset equal to the SetBinlogPosition value (first attempt) or the end label of the last accepted transaction (later attempts). "
                "Non-trivial = server id >= 2^31 or offset >= 2^31 or >= 2 attempts; distinct = distinct case hashes among those",
        "assumptions": TRUST + ["extra harmless queries before the checksum query are tolerated"],
    },
    "C08": {
        "test": "TestC08", "level": "exploration", "checks": (140, 700), "timeout": (900, 7200),
        "rule": "rapid-generated histories whose string/blob values are pushed to 3000..9000 bytes (packets straddle the driver's 4 KiB receive buffer) and which contain "
                "zero TIMESTAMPs, streamed with far-ahead or lock-step pacing to a handler that snapshots each delivery and (half the cases) overwrites every delivered value "
                "in place. Oracle: every delivery equals the model at delivery time whatever was overwritten before; no value changes when another value of the same delivery "
                "is overwritten; retained transactions equal their snapshot (or snapshot + own overwrites) after the stream ended and after a second unrelated stream ran. "
                "Non-trivial = (>= 3 transactions with a value >= 100 bytes) or a zero timestamp delivered twice; distinct = distinct case hashes among those",
        "assumptions": TRUST + ["the handler only overwrites bytes in place (never appends to a delivered slice)"],
    },
    "C20": {
        "test": "TestC20", "level": "exploration", "checks": (700, 5000), "timeout": (600, 3600),
        "rule": "two thirds synthetic Transaction values (arbitrary bytes in file names, table names, SQL, column names and data: control characters, quotes, backslashes, "
                "<>&, invalid UTF-8; nil vs empty data; nil Events; unknown kind / type codes), one third transactions delivered end to end by C01's generator. Oracle: "
                "json.Marshal succeeds, json.Valid, and a generic decode shows both positions, every event's kind string / table / sql, and per column filed, type name (from the "
                "harness's own table of documented names), isEmpty and data with NULL <-> null, empty <-> \"\" and valid UTF-8 verbatim. Non-trivial = the transaction has "
                ">= 1 event; distinct = distinct case hashes among those",
        "assumptions": TRUST + ["invalid UTF-8 is only required to produce valid JSON (encoding/json substitutes U+FFFD)"],
    },
    "C04": {
        "test": "TestC04", "level": "fault_enumeration", "checks": (250, 1500), "timeout": (900, 7200),
        "rule": "rapid-generated scenarios on ONE streamer: history x start boundary x 1..3 failing attempts followed by a clean one; each failing attempt = fault kind in "
                "{socket close, reset, short packet, out-of-sequence packet, ERR packet, EOF packet, invalid event, RowsQuery/IntVar/Rand event, undecodable event, cancel "
                "from outside at packet i, cancel from inside the handler after tx j, handler error at call j, mapper error, mapper column-count mismatch} x fault point x "
                "pacing {far ahead, lock-step}; the master serves every attempt from the coordinates that attempt's dump request asks for. Oracle: the transactions for which "
                "the handler returned nil, concatenated over all attempts, equal the reference list (each once, in order), and each dump request lies in the window [end of the "
                "last accepted transaction, start of the next transaction]. Non-trivial = a failing attempt ended after >= 1 accepted transaction and before the end of the "
                "history; distinct = distinct scenario hashes among those",
        "assumptions": TRUST + ["undecodable events are those the decoder reports as errors (binlog v3 FDE, query db-length overrun, short ROTATE, unknown column type, unknown checksum algorithm, unannounced table id)"],
    },
    "C05": {
        "test": "TestC05", "level": "fault_enumeration", "checks": (45, 250), "timeout": (900, 7200), "race": True, "race_shards": [12, 13, 14, 15],
        "rule": "rapid-generated scenarios: small history (3..10 packets) x stop cause in {master EOF, cancel at packet i, cancel while the handler is gated, cancel from inside "
                "the handler, deadline, EOF / ERR packet, socket close, reset, short packet, out-of-sequence packet, handler error, mapper error, column mismatch, unsupported / "
                "invalid / undecodable event, connect refused, ERR at handshake, ERR to the checksum query, cancel during the handshake} x stop point x pacing {lock-step: reader "
                "waits for the network; far ahead: reader holds an event} x handler {fast, slow, gated until the requested reader state was OBSERVED via runtime.Stack} x "
                "{fresh streamer, streamer whose previous attempt succeeded}; 4 of 16 shards run under the race detector. Oracle: Stream returns (else a blocked-state proof: two "
                "probes 300 ms apart show it parked with no runnable library goroutine), the replica closes the connection, no goroutine created by gobinlog or the driver "
                "remains, the handler is never entered twice at once nor after Stream returned, three consecutive Error() calls return, and the race log is empty. "
                "A deterministic scenario per listed known finding runs first. Non-trivial = the requested reader state was observed at the stop (connect-phase causes: always); "
                "distinct = distinct scenario hashes among those",
        "assumptions": TRUST + ["goroutines are attributed to the library by the package path of their creator function (runtime.Stack)",
                                "a wall-clock bound alone never yields a violation: only a goroutine parked in the same blocked state in two probes does; otherwise the run is inconclusive (exit 2)",
                                "the race detector only sees races on executed paths"],
    },
    "C06": {
        "test": "TestC06", "level": "fault_enumeration", "checks": (120, 900), "timeout": (900, 7200),
        "rule": "the C05 scenario space (stop cause x stop point x pacing x handler mode x fresh/used streamer), weighted towards master errors (codes 1..65535, with and "
                "without #sqlstate, ASCII / UTF-8 / packet-header-looking messages), transport failures and handler / decode / table-lookup failures. Oracle (error-reporting "
                "table): handler, mapper, column-mismatch, unsupported, invalid and undecodable causes that demonstrably reached the library => Stream != nil; if Stream == nil "
                "and the caller had not cancelled: ERR => first Error() != nil and its text contains the master's message; close / reset / short / out-of-sequence / connect-phase "
                "failure => first Error() != nil; master EOF unconstrained. Non-trivial = a master- or transport-side cause that fired after >= 1 delivered transaction; "
                "distinct = distinct scenario hashes among those",
        "assumptions": TRUST + ["a cause counts only when it demonstrably reached the library (the faulty packet was written out, the handler / mapper returned the injected error)",
                                "when the caller cancelled before Stream returned either answer is allowed"],
    },
    "C09": {
        "test": "TestC09", "level": "exploration", "checks": (2500, 30000), "timeout": (600, 3600), "fuzz": [("FuzzC09", "45s")],
        "rule": "rapid-generated (config {checksum, v1/v2 rows, extra-data length, 4/6-byte ids} x table of 1..300 columns over the emitted AND documented-extra type strata with "
                "their metadata domains x {write, update, delete} x presence bitmaps (full / key-only / random, >= 1 present) x NULL patterns x 0..8 rows), encoded by the independent "
                "encoder and decoded directly with TableMap / Rows / CellBytes. Oracle: row count, presence bitmaps, per-row NULL bitmaps and image bytes equal the encoder's, and "
                "walking each image with CellBytes consumes exactly len(image) with every cell length equal to the encoder's and every value equal to the model. "
                "Non-trivial = > 8 columns or >= 2 rows or a partial image with NULLs; distinct = distinct case hashes among those",
        "assumptions": TRUST + ["every used bitmap has >= 1 present column", "the library's BinlogFormat value is constructed from the logical configuration (the format-description decoder is C16's subject)"],
    },
    "C13": {
        "test": "TestC13", "level": "exploration", "checks": (150, 1000), "timeout": (900, 7200), "fuzz": [("FuzzC13", "45s")],
        "rule": "(a) CHAR/BINARY: EVERY declared length 0..1023 x actual {0,1,255,256,max}; VARCHAR declared 0..65535 (boundaries + stride 61; every length in the thorough tier) x "
                "the same actual lengths; blob family length bytes 1..4 x {0,1,255,256,65535,65536,max}; random declared/actual/content for all eight string/binary type codes, "
                "through CellBytes (verbatim bytes, exact consumption). (b) end to end: tables of 1..10 string columns streamed with column p NULL / empty / absent for EVERY "
                "position p and state, in write / update / delete events: NULL <=> Data == nil && !IsEmpty, empty <=> Data != nil && len 0, absent <=> IsEmpty. Every case is "
                "non-trivial; distinct = distinct case hashes",
        "assumptions": TRUST + ["a single-column table cannot have its only column absent (a bitmap needs one present column)"],
    },
    "C14": {
        "test": "TestC14", "level": "exploration", "checks": (2500, 20000), "timeout": (600, 5400), "fuzz": [("FuzzC14", "90s")],
        "rule": "rapid-generated JSON documents (depth <= 6, fan-out <= 40, <= 150 nodes: objects with unique keys in MySQL's key order, arrays, literals, signed / unsigned "
                "integers at every width boundary, doubles, quote-free strings 0..70000 bytes incl. UTF-8, opaque DATE / TIME (both signs) / DATETIME / DECIMAL) serialised by an "
                "independent json_binary writer (small format, large format when >= 64 KiB by padding or by a forced format bit, small containers inside large ones, inlined and "
                "out-of-line values) and decoded through CellBytes(TypeJSON); the rendered text is parsed with the grammar the repository's TestJSON documents and compared with "
                "the document (keys, order, nesting, integers by value, doubles by bits, temporals and decimals by value). Non-trivial = depth >= 2 or large format or an opaque "
                "scalar; distinct = distinct case hashes among those. Thorough adds native coverage-guided fuzzing of the same property (rapid.MakeFuzz)",
        "assumptions": TRUST + ["keys and strings contain no quote characters (the renderer does not escape; stated in the property's quantifier)"],
    },
    "C15": {
        "test": "TestC15", "level": "exploration", "checks": (600, 4000), "timeout": (600, 5400), "fuzz": [("FuzzC15", "45s")],
        "rule": "(a) direct: table maps of 1..600 columns over both type strata, db/table names 1..255 bytes, arbitrary flags, every nullability pattern drawn, 4/6-byte ids, 0..3 "
                "trailing optional-metadata TLVs -> TableMap()/TableID() must equal the schema (types, metadata per the documented byte order, CanBeNull). (b) end to end: an id "
                "re-announced with other column types, an id re-bound to a different table (inside one transaction or across transactions with DDL in between), a mapper that "
                "reports a wrong column count (Stream != nil, nothing of the mismatching table delivered), and generated multi-table histories with interleaved and re-announced "
                "maps where every mapper call must name an announced table. Every (a)/(b-special) case is non-trivial, generated histories when they announce >= 2 maps; "
                "distinct = distinct case hashes among those",
        "assumptions": TRUST + ["when an id is re-announced for the same table, names and signedness are kept identical across the two definitions (the mapper is asked by name)"],
    },
    "C16": {
        "test": "TestC16", "level": "exploration", "checks": (4000, 100000), "timeout": (600, 3600), "fuzz": [("FuzzC16", "45s")],
        "rule": "rapid-generated control events {format description (server version 0..50 bytes, 27..255 arbitrary header sizes, algorithm byte 0/1/255), rotate (name 0..255 bytes, "
                "position up to 2^63-1), query (db 0..255 bytes, SQL 0..64 KiB, every drawn subset in MySQL's emission order of status variables 0..20 with correctly shaped "
                "payloads, charset present or not), XID, INTVAR (both ids), RAND} x arbitrary header fields x {MySQL 5.6, MariaDB event flavor}. Oracle: accessor results equal the "
                "written fields, and the decoding after StripChecksum under CRC32 equals the decoding without checksum and under the 'undefined' algorithm (metamorphic). "
                "Every case is non-trivial; distinct = distinct case hashes",
        "assumptions": TRUST + ["the pre-5.0.4 Q_CATALOG status variable (code 2) is never emitted by a 5.6+ master and is not generated", "header length is 19 (what every 5.x/8.x master writes)"],
    },
    "C17": {
        "test": "TestC17", "level": "fault_enumeration", "checks": (60, 400), "timeout": (900, 7200), "fuzz": [("FuzzC17", "60s")],
        "rule": "(a) byte strings of length 0..64 in structured classes (length field ==, <, > the buffer length; shorter than a header; all 0xFF; high length bytes set) and longer "
                "ones up to 5 KiB; every well-formed event of a generated history truncated to and extended from EVERY length -> IsValid must equal (len >= 19 and "
                "le32(b[9:13]) == len) for both event flavors and every header accessor / type predicate must agree with an independent read. (b) a packet failing the gate "
                "(8 classes, incl. over-long by 1 and by 4 bytes) injected at EVERY packet index of generated histories, both pacings: Stream != nil, no panic, exactly the transactions committed before the packet "
                "are delivered (none partial), the next attempt asks for a position in the resume window and completes the history exactly once. Every case is non-trivial; "
                "distinct = distinct case hashes. Thorough adds native go fuzzing of (a)",
        "assumptions": TRUST + ["packets that pass the gate but carry a broken body are not this property's subject"],
    },
    "C18": {
        "test": "TestC18", "level": "exploration", "checks": (1500, 40000), "timeout": (600, 3600), "fuzz": [("FuzzC18", "45s")],
        "rule": "EXHAUSTIVE: one UUID and a window of 8 sequence numbers: all 256 subsets (built from an independently encoded SID block), all 65,536 ordered pairs for Contains / "
                "Equal, and every (set, gtid) with the gtid in and around the window for ContainsGTID / AddGTID; then rapid state-machine cases: 1..4 UUIDs (some differing in "
                "one byte), narrow or wide intervals up to 2^63-1, 1..12 AddGTID steps applied to any retained set. Oracle: a set-of-pairs model (sorted disjoint merged intervals "
                "per UUID): membership, superset, equality, canonical text and SID block of every result, and every retained set re-verified after every step (receiver "
                "unchanged). Every case is non-trivial; distinct = enumerated pairs / additions + distinct sequence hashes",
        "assumptions": TRUST + ["sets are built through NewMysql56GTIDSetFromSIDBlock / AddGTID, never through the library's text parser (canonical inputs only)"],
    },
    "C19": {
        "test": "TestC19", "level": "exploration", "checks": (4000, 100000), "timeout": (600, 3600), "fuzz": [("FuzzC19", "45s")],
        "rule": "rapid-generated cases: MySQL 5.6 GTIDs (16-byte SIDs incl. all-zero / all-0xFF, sequence 1..2^63-1) and MariaDB GTIDs (domain / server 0..2^32-1, sequence up to "
                "2^64-1) through String -> ParseGTID and EncodeGTID -> DecodeGTID; 5.6 sets of 0..8 UUIDs through String -> the registered set parser (verif hook) and SIDBlock -> "
                "NewMysql56GTIDSetFromSIDBlock; MariaDB sets of 1..8 members through String -> the registered parser; GTID events (5.6 and 5.7 layouts, with and without CRC32), "
                "previous-GTIDs events and MariaDB GTID events built by the independent encoder; a MariaDB state machine of 1..10 AddGTID steps on any retained set. Oracle: round "
                "trips return equal values, event accessors return the written identifiers, and a per-domain model (one position per domain, containment by sequence, every "
                "retained set unchanged after every step). Every case is non-trivial; distinct = distinct case hashes",
        "assumptions": TRUST + ["the set parsers are reached through the add-only verif hook VerifParseGTIDSet (registry lookup)"],
    },
}

NOT_APPLICABLE = {}

_BASE_NOTE = ("Trusted: Go runtime/stdlib, rapid, the kernel's loopback TCP, and the harness's own independent encoder (verif/refenc) and reference model "
              "(verif/hist). The unmodified Breeze0806/mysql driver is part of the system under test. Generated search never shows absence.")

MANIFEST_TEXT = {
    "C01": {"technique": "property-based testing: generated histories served by a simulated master vs. a reference model (model-based differential oracle)",
            "level_text": "Exploration: thousands of generated RBR histories per run are streamed through the real Stream() over TCP and every delivered field is compared with a model computed from the logical history; finds fidelity defects in any generated shape, proves nothing about shapes not generated.",
            "level_note": _BASE_NOTE},
    "C02": {"technique": "exhaustive enumeration of unit sequences up to a bound + property-based testing beyond it, reference grouping and a not-before-commit schedule oracle",
            "level_text": "Exploration with an exhaustive sub-space: every unit sequence up to length 3 (4 thorough) and every keyword casing is run; longer histories are sampled.",
            "level_note": _BASE_NOTE},
    "C03": {"technique": "property-based testing with a metamorphic oracle (resume at every delivered label == suffix of the uninterrupted stream) plus model labels",
            "level_text": "Exploration: each generated history is streamed once and then re-streamed from every delivered end label; labels are compared with the model and the resumed streams with the original deliveries.",
            "level_note": _BASE_NOTE},
    "C07": {"technique": "property-based testing: generated ids / file names / offsets / attempt sequences, oracle = commands decoded by the simulated master",
            "level_text": "Exploration over configuration and attempt sequences; the wire commands of every attempt are decoded independently and compared with the configuration.",
            "level_note": _BASE_NOTE},
    "C08": {"technique": "property-based testing with snapshot-vs-later-read and scribbling-handler oracles over buffer-straddling packet sizes and pacings",
            "level_text": "Exploration: deliveries are snapshotted, overwritten in place and re-read after further stream activity, with packet sizes around the driver's buffer size.",
            "level_note": _BASE_NOTE},
    "C10": {"technique": "exhaustive sweep of 8/16/24-bit (32-bit thorough) domains + property-based testing for 64-bit, floats (parse-back oracle), YEAR/BIT/ENUM/SET; coverage-guided fuzzing of the generated part in the thorough tier (rapid.MakeFuzz)",
            "level_text": "Exploration with exhaustive sub-spaces: all raw values of the narrow integer types in both signedness modes are enumerated; wider domains are sampled at boundaries and uniformly.",
            "level_note": _BASE_NOTE},
    "C11": {"technique": "enumeration of all (precision, scale) pairs x digit patterns + property-based testing, independent decimal2bin vs canonical-text oracle; coverage-guided fuzzing of the generated part in the thorough tier (rapid.MakeFuzz)",
            "level_text": "Exploration, exhaustive over the 1,580 (p,s) pairs with structured digit patterns, sampled over digit strings.",
            "level_note": _BASE_NOTE},
    "C12": {"technique": "exhaustive sweep of the 2^24 raw 3-byte DATE/TIME values + property-based testing of the wider encodings under four process time zones; coverage-guided fuzzing of the generated part in the thorough tier (rapid.MakeFuzz)",
            "level_text": "Exploration with exhaustive sub-spaces (all valid raw old DATE / TIME values); fractional encodings and zones are sampled.",
            "level_note": _BASE_NOTE},
    "C04": {"technique": "fault enumeration by property-based generation: (fault kind x fault point x pacing x up to 3 failed attempts) on one streamer, exactly-once-in-order oracle over accepted transactions plus a resume-window oracle on every dump request",
            "level_text": "Fault enumeration: every listed way of ending an attempt is injected at generated points (master-side through the simulated master, replica-side through the handler, mapper and context) and the accepted transactions over all attempts are compared with the reference list.",
            "level_note": _BASE_NOTE},
    "C05": {"technique": "fault enumeration with harness-controlled schedules: stop cause x stop point x observed reader blocking state x handler mode, goroutine-state probes (blocked-state proof) and race-detector shards",
            "level_text": "Fault enumeration under controlled timing: the master decides when each packet leaves, the handler can be gated, and the reader's blocking state is observed through runtime.Stack before the stop is fired; termination, cleanup and Error() liveness are decided by blocked-state proofs, not stopwatches; 4 of 16 shards run under the race detector.",
            "level_note": _BASE_NOTE + " Scheduler interleavings inside the library are not enumerated; the two named blocking states are reached on purpose."},
    "C06": {"technique": "fault enumeration over the same scenario space as C05 with an error-reporting decision table as oracle",
            "level_text": "Fault enumeration: for each generated stop scenario the results of Stream and of the first Error() call are compared with the table cause -> allowed results.",
            "level_note": _BASE_NOTE},
    "C09": {"technique": "property-based testing: independent rows-event encoder vs TableMap/Rows/CellBytes, byte-for-byte image and exact-consumption oracle; coverage-guided fuzzing of the generated part in the thorough tier (rapid.MakeFuzz)",
            "level_text": "Exploration: thousands of generated rows events over wide tables, all type strata and bitmap shapes are decoded and compared byte for byte with the encoder's images.",
            "level_note": _BASE_NOTE},
    "C13": {"technique": "enumeration of declared lengths x boundary actual lengths + property-based testing; end-to-end enumeration of NULL/empty/absent in every column position; coverage-guided fuzzing of the generated part in the thorough tier (rapid.MakeFuzz)",
            "level_text": "Exploration with exhaustive sub-spaces (every CHAR length; every VARCHAR length in the thorough tier; every column position x state end to end).",
            "level_note": _BASE_NOTE},
    "C14": {"technique": "property-based testing with an independent binary-JSON writer and a parse-back oracle; coverage-guided fuzzing of the same property in the thorough tier",
            "level_text": "Exploration: generated documents in small and large formats are rendered by the library and parsed back with the documented grammar; equality with the generated tree.",
            "level_note": _BASE_NOTE},
    "C15": {"technique": "property-based testing: direct table-map decoding vs generated schema; end-to-end attribution scenarios (re-announce, re-bind, count mismatch) vs reference model and mapper call log; coverage-guided fuzzing of the generated part in the thorough tier (rapid.MakeFuzz)",
            "level_text": "Exploration: schemas up to 600 columns decoded directly; attribution checked end to end on hand-shaped and generated interleavings.",
            "level_note": _BASE_NOTE},
    "C16": {"technique": "property-based testing with field-equality and a metamorphic checksum-on == checksum-off oracle; coverage-guided fuzzing of the generated part in the thorough tier (rapid.MakeFuzz)",
            "level_text": "Exploration: generated control events are decoded with and without CRC32 and under the undefined algorithm; all decodings must agree with each other and with the written fields.",
            "level_note": _BASE_NOTE},
    "C17": {"technique": "property-based testing of the exact validity predicate + fault enumeration (bad packet at every index of generated histories); native go fuzzing in the thorough tier",
            "level_text": "Fault enumeration: the validity predicate is checked against its exact specification on structured and mutated byte strings, and a gate-failing packet is injected at every packet index of generated histories.",
            "level_note": _BASE_NOTE},
    "C18": {"technique": "exhaustive enumeration of a window of 8 (all subsets, pairs, additions) + rapid state-machine testing against a set-of-pairs model; coverage-guided fuzzing of the generated part in the thorough tier (rapid.MakeFuzz)",
            "level_text": "Exploration with an exhaustive sub-space (window of 8 under one UUID) and model-based stateful testing beyond it.",
            "level_note": _BASE_NOTE},
    "C19": {"technique": "property-based round-trip testing (text, flavor-tagged, SID block, events from an independent encoder) + stateful model of MariaDB sets; coverage-guided fuzzing of the generated part in the thorough tier (rapid.MakeFuzz)",
            "level_text": "Exploration: round trips over generated identifiers and sets, event decoding against the written identifiers, and a per-domain model with a receiver-unchanged invariant.",
            "level_note": _BASE_NOTE},
    "C20": {"technique": "property-based testing: synthetic hostile and end-to-end transactions, encoding/json parse-back structural oracle",
            "level_text": "Exploration: generated transactions are serialised and decoded generically; structure and NULL/empty/UTF-8 rules are compared with the source value.",
            "level_note": _BASE_NOTE},
}

# Parts added after the sensitivity rounds (DESIGN.md section 11), appended to the rule text of the evidence.
RULE_ADDENDA = {
    "C01": "histories also contain file ends WITHOUT a rotate event (STOP / crash), a checksum setting that flips at a rotation (the first fake ROTATE is framed with the "
           "master's current setting), file names that sort lower after a roll-over (999999 -> 1000000), and unused bitmap bits set to one as mysqld leaves them; a panic "
           "inside Stream is a violation",
    "C02": "the unit alphabet has a 15th symbol (file end without ROTATE); part 4: the stream is cut (close / EOF packet) in front of a drawn packet, possibly inside a "
           "transaction - exactly the transactions whose commit event was sent are delivered; part 5: a unit is refused by the handler or the stream is cut and the SAME streamer "
           "tries again (exactly-once oracle); part 6: 2-4 streamers parse long statement-heavy histories in parallel in one process",
    "C03": "file changes are a ROTATE event, a STOP event or a plain end of file; the checksum setting may flip; the next file name may sort lower",
    "C04": "further fault kinds: cancel at the n-th log call of the parser (between any two parser steps, through the logger hook), a handler that cancels and then fails, ERR "
           "instead of the greeting, ERR to the checksum query (attempts that fail before the dump starts must leave the position alone); the thorough tier ENUMERATES one "
           "failing attempt = kind x every fault point x pacing on three fixed history shapes",
    "C05": "further dimensions: previous attempt ended by caller cancellation; schedule perturbation by a logger installed through SetLogger that delays the reader and/or the Stream "
           "goroutine at the library's own log calls by 0.1..3 ms; one scenario in twelve uses a 40..120 unit history (hundreds of packets queue up); causes 'cancel at the n-th "
           "parser log call', 'handler cancels then fails', 'cancel exactly between TCP connect and the driver's first look at the context'; the three Error() calls are made "
           "IMMEDIATELY after Stream returned; after a cancel while the handler is gated the handler stays blocked 30 ms longer (Stream must not return meanwhile); the stall clock "
           "only runs while the master is idle; the thorough tier ENUMERATES cause x every stop point x pacing x handler mode x gated call on three fixed history shapes",
    "C06": "the FIRST Error() result is taken immediately after Stream returned; a handler / mapper failure that was demonstrably returned to the library must yield Stream != nil "
           "even when the caller cancelled at the same moment; previous attempt may have ended by caller cancellation; schedule perturbation as in C05",
    "C07": "histories may change file (names may sort lower, other base name) and attempts may fail at the greeting or at the checksum query (no dump may follow, position unchanged); "
           "later attempts are judged with the resume window of C04",
    "C08": "a second attempt on the SAME streamer (from the start again) runs before the retained transactions are re-verified",
    "C09": "unused bitmap bits are zero or one; one case in twelve is end to end: a table id announced again with other column types must be split and decoded with the new map",
    "C10": "earlier outputs are re-verified after later cells; parts: 2-4 goroutines decoding concurrently, end-to-end histories over these types compared after the stream ended, "
           "ALTER TABLE with a new id and other signedness, re-announced table map",
    "C11": "the last four outputs are re-verified after every later cell; parts: 2-4 goroutines decoding concurrently, end-to-end re-announced table map",
    "C12": "runs of 2..8 TIMESTAMP cells decoded one after the other around an offset transition of the process zone; 2-4 goroutines decoding concurrently; re-announced table map",
    "C13": "end-to-end histories with string / blob values of any size (packets beyond the driver's buffer) compared after the stream ended; 2-4 goroutines decoding concurrently; "
           "re-announced table map",
    "C14": "a document the decoder must reject is decoded first (its error is not judged); a second document of the same binary length is written over the first in the caller's buffer "
           "and decoded from the same slice; 2-4 goroutines decode concurrently; re-announced table map",
    "C15": "further attribution scenarios: re-announced with only the metadata changed; re-announced with another column count while the mapper is unchanged (error required when rows "
           "follow); ALTER TABLE bringing the table back under a NEW id with other signedness / names (the mapper switches when the DDL is delivered)",
    "C16": "Q_UPDATED_DB_NAMES also in its over-max form (count byte 254, no names); one case in thirty is end to end: several attempts on one streamer over a history whose checksum "
           "setting flips at rotations",
    "C17": "gate-failing classes include buffers over-long by 1..16 bytes; real events are extended by up to 16 bytes",
    "C18": "SID blocks returned earlier are re-verified after later serialisations",
    "C19": "SID blocks returned earlier are re-verified after later serialisations; a decoded previous-GTIDs set must stay what the master wrote when GTIDs are added to it",
    "C20": "the direct MarshalJSON() result must equal json.Marshal's and the last four results are re-verified after later calls",
}
for _id, _txt in RULE_ADDENDA.items():
    CHECKS[_id]["rule"] += ". Extensions after the sensitivity rounds: " + _txt

# what every end-to-end history may contain since the third sensitivity round
_E2E3 = ("event headers carry the flag bits a master sets (thread-specific / suppress-use / no-filter / MTS-isolate / ignorable / in-use); v2 rows events carry typed extra row "
         "info (partition id, source partition id for UPDATE, NDB info); statement texts end in a comment with non-ASCII, non-UTF-8 and control bytes; table maps may carry optional "
         "metadata (signedness, charsets, column names); DDL may stand inside a transaction")
ROUND3_ADDENDA = {
    "C01": _E2E3 + "; scale shapes, one history in ~50 each: a statement split into up to 1100 rows events, a history of > 1500 events, 130-2100 tables with two-table statements, "
           "rows events with > 1000 rows; one case in twenty runs 2-4 streamers in parallel",
    "C02": _E2E3 + "; long transactions and long histories as in C01",
    "C03": _E2E3 + "; scale shapes as in C01 (eight drawn resume points on long histories)",
    "C04": _E2E3 + "; rows events with > 1000 rows; cause 'cancel while the parser is busy'; handler errors include io.EOF, context.Canceled and wrapped errors",
    "C05": "stop cause 'cancel while the replica waits for the answer to its first statement' (master answers 0-3 ms later); histories with STOP events and rotations; one long-lived, "
           "mostly idle attempt (2.6 s) in one normal and one race-detector shard; 2-4 streamers in parallel (more often in the race shards)",
    "C06": "handler errors include io.EOF, context.Canceled and wrapped errors; histories with STOP events and rotations",
    "C07": "attempts may run under a context with a (far) deadline: the request must still be the blocking one; a dump requested after the master rejected the checksum statement is a violation",
    "C08": "long transactions (a statement split into up to 1100 rows events) are retained and re-verified",
    "C09": "typed extra row info; part: a rows event with > 1000 rows whose conversion meets a cancellation at a parser log call - whatever is delivered must be complete",
    "C10": "re-binding of a table id to a table whose name differs only in letter case",
    "C13": "typed extra row info in the end-to-end part",
    "C14": "wide containers: 90-3000 members taken from a few drawn scalars (opaque temporals and decimals render much longer than they are stored), below 0-2 enclosing containers",
    "C15": "re-binding to a name that differs only in letter case; one end-to-end history in sixty has 130-2100 tables with two-table statements",
    "C16": "variable-length status vars reach their real maxima (catalog / time zone 255, invoker 96+255, 16 database names of 192 bytes) one time in six",
    "C18": "the dense interval window is also placed at 2^24, 2^31, 2^32, 2^53, 2^62 and 2^63-40",
    "C19": "the generic accessors (domain / server / sequence) of a parsed GTID report the identifier's components",
    "C20": "synthetic transactions with 33-600 events, 64-300 rows, Query.Database and Query.Charset set, U+FFFD / BOM / C1 / U+2028 in all strings; end-to-end histories with long "
           "transactions and with a ROWS_QUERY event in front of the table maps (a refusal of the stream is fine; what is delivered must serialise completely); an event that has "
           "rows must show them whatever its statement text",
}
for _id, _txt in ROUND3_ADDENDA.items():
    CHECKS[_id]["rule"] += ". Third round: " + _txt

ROUND4_ADDENDA = {
    "C05": "stop cause 'the dump command cannot be sent' (session set up, command larger than the configured packet limit); dimension 'master silent after the cause' (nothing more is "
           "sent, the socket stays open: whatever the library must wake or close it must do itself); dimension 'caller context with a 15-40 ms deadline' (when it has not expired at "
           "the return of Stream the harness waits for it before the first Error()); one scenario in twenty has a backlog of 400-1500 units behind a handler held in its first call",
    "C06": "the same new dimensions as C05: an expired context of the caller does not excuse a swallowed transport failure when the deadline passed only after Stream had returned",
    "C08": "second history shape over every supported type in which every second value is the zero / empty / null value of its type (incl. zero-length JSON values)",
    "C14": "zero-length JSON values (the server reads them as the null literal)",
    "C16": "the catalog status var also in its 5.0.0-5.0.3 form (code 2, trailing NUL not counted by the length)",
    "C20": "the end-to-end documents are also compared with the master's model: SQL NULL is null, every other value (the empty string included) is a string with the value's text",
}
for _id, _txt in ROUND4_ADDENDA.items():
    CHECKS[_id]["rule"] += ". Fourth round: " + _txt
_ALL5 = ("two of the sixteen shards run a 32-bit build (GOARCH=386) of library and harness")
_E2E5 = (_ALL5 + "; end to end: a copy of every transaction is taken inside the handler call and compared with what the same object reads after Stream returned; in half of the sessions "
         "the handler then overwrites everything it can reach through the transaction it was handed (positions, event list, names, flags, value bytes) and the mapper hands out the same "
         "table description object on every call; in a quarter of the cases the master's bytes arrive in pieces of 1 byte..16 KiB; statements carry thread id, execution time and a "
         "non-zero error code")
ROUND5_ADDENDA = {
    "C01": _E2E5 + "; part: the same table id announced again with another definition",
    "C02": _E2E5 + "; the retry part lets the caller reposition the streamer (SetBinlogPosition to an earlier accepted boundary) between attempts",
    "C03": _E2E5,
    "C04": _E2E5 + "; fault 'the write of the dump command fails on the replica's side'; the caller may reposition the streamer between attempts; handler errors include temporary / timeout "
           "net errors; a mapper may fail while returning a complete table description",
    "C05": _ALL5 + "; the caller's context may be of a type of its own (own Done channel); goroutines the standard library starts on the library's behalf (created in the Stream goroutine or a "
           "library goroutine) count as the library's; previous attempt may have ended by a handler failure; bytes may arrive in pieces",
    "C06": _ALL5 + "; previous attempt may have ended by a handler failure; temporary handler errors; mapper failing with a complete table description; bytes may arrive in pieces",
    "C07": _E2E5 + "; the caller may reposition the streamer between attempts (also to the value it set first); a connection may be cut inside the next transaction; the write of the dump "
           "command may fail on the replica's side (no dump reaches the master, position unchanged)",
    "C08": _ALL5 + "; whole columns (bytes, name, absent flag) are scribbled; the handler may refuse a transaction it has scribbled over with a temporary error (nobody may be handed that copy); "
           "retained transactions are serialised to JSON before they are verified again; runs of 3-8 packets whose payload lengths sit on and next to 4096, 8192, 65536 and 262144 bytes; "
           "bytes may arrive in pieces",
    "C09": _ALL5 + "; decoding the cells of an image leaves the image as it was; TableMap() / Rows() of the same event a second time answer the same",
    "C10": _ALL5 + "; every cell is decoded a second time (same text, same length, first result untouched)",
    "C11": _ALL5 + "; every cell is decoded a second time",
    "C12": _ALL5 + "; every cell is decoded a second time",
    "C13": _ALL5 + "; every cell is decoded a second time; values of 2^24-2 .. 2^24+1 bytes directly, and end to end through events that need several protocol packets (payload one below, "
           "exactly at and beyond 2^24-1 bytes)",
    "C14": _ALL5 + "; every cell is decoded a second time",
    "C15": _ALL5,
    "C16": _ALL5 + "; every control event is decoded a second time",
    "C17": _ALL5,
    "C18": _ALL5 + "; one case in six has a server with 9-40 short intervals and operations on their first / last numbers, inside them and in the gaps",
    "C19": _ALL5,
    "C20": _ALL5 + "; serialising must leave the transaction as it was",
}
for _id, _txt in ROUND5_ADDENDA.items():
    CHECKS[_id]["rule"] += ". Fifth round: " + _txt
ROUND6_ADDENDA = {
    "C01": "rows have a history (an UPDATE / DELETE may carry the last written after image of its table as before image; a third of the TIMESTAMP values are the second of their event); "
           "statement texts may end in white space; a later file may announce checksum algorithm 255",
    "C04": "fault 'the caller's deadline passes inside the At-th handler call, which then accepts'",
    "C05": "stop cause 'the handler panics and the caller recovers'; the gated handler stays blocked 30 / 150 / 400 ms after a cancellation",
    "C07": "start positions with an empty file name; an attempt whose handler panics (the next request carries the position that attempt started from or a resume point)",
    "C08": "mode in which handler and harness keep only the value byte slices, let go of the transaction and run the garbage collector after every delivery; rows with a history as in C01",
    "C14": "two documents of more than 2^24 bytes (a 17 MiB string among other members)",
    "C16": "end-to-end part: a later file may announce checksum algorithm 255",
    "C17": "injections also with an empty start file name; thorough tier: one scenario with 10.5 s of silence in front of an empty packet",
    "C18": "the zero-value (nil map) empty set against the allocated empty set: Equal, Contains, String, AddGTID",
}
for _id, _txt in ROUND6_ADDENDA.items():
    CHECKS[_id]["rule"] += ". Sixth round: " + _txt
ROUND7_ADDENDA = {
    "C01": "one session in four runs with a logger that formats every message (as the default debug logger does) and one in four with a DSN carrying parseTime=true&loc=UTC",
    "C04": "the 'invalid' packet classes include a complete event behind a semi-sync header or a stray byte; resume points include the end of the file a STOP / ROTATE event closes",
    "C05": "thorough tier: one scenario whose first handler call takes 10.5 s with packets waiting; a rows-query event may be skipped instead of ending the attempt (then the master does not fall silent behind it)",
    "C06": "for transport causes one scenario in twenty runs with error-level log lines of the reader taking 1.2 s; the refused statement is the one naming binlog_checksum; a rows-query event that is skipped with everything delivered is not a swallowed error",
    "C07": "the refused statement is the checksum announcement and the failed write is the dump command, whatever else the session sends; labels of a resumed attempt follow the position it asked for",
    "C08": "sessions with a formatting logger as in C01; one scenario in eight runs in two streamers of one process at the same time (the second with the other handler behaviour)",
    "C12": "end-to-end part with DSN parameters as in C01",
    "C13": "end-to-end part with a formatting logger as in C01",
    "C14": "objects of 6000 / 7300 members and objects with few keys of 1.7-2.1 KB (key offsets beyond 16 bits)",
    "C15": "optional-metadata fields behind the table map's NULL bitmap with lengths on the packed-integer boundaries (250, 251, 252, 1000, 65535, 65536, 70000 bytes)",
    "C16": "after decoding, the caller's buffer is overwritten: every returned string (database, SQL, file name, server version) must be unchanged",
    "C17": "two more classes of malformed packet (a complete event behind 0xef+flag, behind a stray 0x00); one injection scenario in three sends a second, header-less packet directly behind the first",
    "C19": "kind typed56: set text with unsorted, overlapping, nested and touching intervals - membership of the parsed set, and of the set parsed from its printed form, equals the union",
    "C20": "strings that are themselves (HTML-safe) JSON text; a direct MarshalJSON call is compared with json.Marshal as documents, not bytes",
}
for _id, _txt in ROUND7_ADDENDA.items():
    CHECKS[_id]["rule"] += ". Seventh round and second benign round: " + _txt
for _id, _c in CHECKS.items():
    if _c.get("fuzz") and _id not in ("C14", "C17"):
        _c["rule"] += ". Thorough tier: the generated part is additionally driven by go's native coverage-guided fuzzer (rapid.MakeFuzz), 45 s on all cores"
