"""Per-property check configuration for bin/vcheck.

checks: (quick, thorough) rapid case counts per shard.  timeout: wall limits (s).
"""

TRUST = [
    "Go runtime and standard library (strconv, time, encoding/json, hash/crc32), pgregory.net/rapid v1.3.0",
    "the independent encoder verif/refenc and the reference model verif/hist (written from the MySQL formats, never from the library)",
]

CHECKS = {
    "C10": {
        "test": "TestC10", "level": "exploration", "checks": (4000, 200000), "timeout": (600, 3600),
        "rule": "exhaustive sweeps of all 2^8/2^16/2^24 raw integer values in both signedness modes (2^32 in the thorough tier) and all 256 YEAR bytes "
                "through CellBytes vs. the arithmetic two's-complement reading; plus rapid-generated (type, metadata, value, mapper signedness, surrounding bytes) "
                "cases for 32/64-bit integers (boundaries + uniform), FLOAT/DOUBLE bit patterns (zeros, subnormals, extremes, powers of 2 and 10, uniform finite), "
                "BIT(1..64), ENUM 1-2 bytes, SET 1..8 bytes (inside TypeString and as direct codes). Every case is non-trivial (each decodes a value); "
                "distinct = enumerated raw values (distinct by construction) + distinct hashes of generated cases",
        "assumptions": TRUST + ["signedness is whatever the caller passes as isUnSignedInt (end-to-end mapper plumbing is covered by C01)"],
    },
    "C11": {
        "test": "TestC11", "level": "exploration", "checks": (3000, 150000), "timeout": (600, 3600),
        "rule": "all 1,580 valid (precision, scale) pairs x deterministic digit patterns (all zeros, all nines, single digits at the edges, each 9-digit group "
                "non-zero / zero / small in turn) x sign, then rapid-generated (p, s, digits, sign, surrounding bytes); encoded by an independent decimal2bin, decoded by "
                "CellBytes, compared with the canonical text built from the digit string; consumed length must equal decimal_bin_size(p,s). Every case is non-trivial; "
                "distinct = distinct (p, s, digits, sign, offsets) hashes",
        "assumptions": TRUST + ["negative zero is not representable and is never generated"],
    },
    "C12": {
        "test": "TestC12", "level": "exploration", "checks": (4000, 150000), "timeout": (600, 3600),
        "shard_env": [{"TZ": "UTC"}, {"TZ": "Asia/Shanghai"}, {"TZ": "America/New_York"}, {"TZ": "Australia/Lord_Howe"}],
        "rule": "exhaustive sweep of all 2^24 raw values of the 3-byte DATE and TIME encodings (checked when they denote a valid value: month<=12, year<=9999; "
                "|h|<=838, m,s<=59) vs. text built from the broken-down fields; rapid-generated old DATETIME / TIMESTAMP and TIMESTAMP2 / DATETIME2 / TIME2 values for "
                "fsp 0..6 (boundaries + uniform, both TIME signs via the documented fraction-complement encoding); shards run under TZ=UTC, Asia/Shanghai, "
                "America/New_York and Australia/Lord_Howe and TIMESTAMP text is computed from the zone offset with an own civil-date routine. Every case is non-trivial; "
                "distinct = enumerated valid raw values + distinct (case, zone) hashes",
        "assumptions": TRUST + ["the zone database of the sandbox / embedded time/tzdata gives the UTC offset of an instant", "seconds==0 denotes the zero timestamp and is only generated with a zero fraction"],
    },
    "C01": {
        "test": "TestC01", "level": "exploration", "checks": (300, 12000), "timeout": (900, 7200),
        "rule": "rapid-generated row-based histories (config x 1..4(8) tables x every emitted column type with its metadata domain x units {tx/XID, tx/COMMIT, rolled-back tx, DDL, "
                "autocommitted rows, statement DML, rotations, GTID / anonymous-GTID / previous-GTIDs / heartbeat / unknown events and statements} x full / key-only / random "
                "row images x NULLs) laid out by the independent encoder, served over loopback TCP by the simulated master from a drawn unit boundary to a fresh Streamer "
                "through the unmodified driver; the handler's deliveries are compared field by field with the reference model computed from the logical history. "
                "Non-trivial = the expectation contains a rows event with >= 1 row and >= 2 columns; distinct = distinct case hashes among those",
        "assumptions": TRUST + ["the simulated master follows Binlog_sender (artificial ROTATE, format description, events from the requested offset, next file after a real ROTATE, EOF at the end)",
                                "how Stream/Error() end at the EOF is judged by C05/C06, not here"],
    },
}
