module verif

go 1.23

require (
	github.com/Breeze0806/go v0.0.0-20210513031655-61a934305111
	github.com/Breeze0806/gobinlog v0.0.0
	pgregory.net/rapid v1.3.0
)

require github.com/Breeze0806/mysql v1.4.2

replace github.com/Breeze0806/gobinlog => /repo
